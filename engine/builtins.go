package main

import (
	"fmt"
	"go/constant"
	"go/token"
	"go/types"
	"sort"
	"strings"

	"golang.org/x/tools/go/ssa"
)

// Assumed semantics of external functions (the trusted base). Every use is
// recorded in Exec.trustedUsed and reported in the evidence.

type bctx struct {
	x     *Exec
	fr    *Frame
	name  string
	args  []Val
	resT  *types.Tuple
	st    *State
	reach Term
	pos   token.Pos
	call  *ssa.CallCommon
}

type bhandler func(b *bctx) (Val, *State)

var builtinTable map[string]bhandler

func init() {
	builtinTable = map[string]bhandler{
		"errors.Is": func(b *bctx) (Val, *State) {
			return Val{T: tBool, S: app("wraps", b.args[0].S, b.args[1].S)}, b.st
		},
		"errors.New": func(b *bctx) (Val, *State) {
			return Val{T: b.resT.At(0).Type(), S: b.x.freshErr(nil)}, b.st
		},
		"fmt.Errorf":  bErrorf,
		"fmt.Sprintf": bSprintf,
		"fmt.Appendf": func(b *bctx) (Val, *State) { return b.x.freshVal("appendf", b.resT.At(0).Type()), b.st },
		"bytes.Equal": func(b *bctx) (Val, *State) {
			return Val{T: tBool, S: b.x.bytesEq(b.st, b.args[0], b.args[1])}, b.st
		},
		"(time.Time).UnixMicro": func(b *bctx) (Val, *State) {
			v := Val{T: tInt64, S: app("unixMicro", b.args[0].S)}
			b.x.assumeRange(v)
			return v, b.st
		},
		"(time.Time).IsZero": func(b *bctx) (Val, *State) { return Val{T: tBool, S: app("timeIsZero", b.args[0].S)}, b.st },
		"(time.Time).After": func(b *bctx) (Val, *State) {
			return Val{T: tBool, S: app("timeAfter", b.args[0].S, b.args[1].S)}, b.st
		},
		"(time.Time).Equal": func(b *bctx) (Val, *State) {
			b.x.sc.declFun("timeEqual", []string{"Time", "Time"}, "Bool")
			return Val{T: tBool, S: app("timeEqual", b.args[0].S, b.args[1].S)}, b.st
		},
		"(time.Time).UTC": func(b *bctx) (Val, *State) {
			// UTC only changes the location; instant, UnixMicro, IsZero and After are unaffected
			return b.args[0], b.st
		},
		"(time.Time).Add": func(b *bctx) (Val, *State) {
			b.x.sc.declFun("timeAdd", []string{"Time", "Int"}, "Time")
			return Val{T: b.args[0].T, S: app("timeAdd", b.args[0].S, b.args[1].S)}, b.st
		},
		"time.UnixMicro": func(b *bctx) (Val, *State) {
			return Val{T: b.resT.At(0).Type(), S: app("timeOfMicro", b.args[0].S)}, b.st
		},
		"time.Now": func(b *bctx) (Val, *State) {
			v := b.x.freshVal("now", b.resT.At(0).Type())
			b.x.sc.assert(not(app("timeIsZero", v.S)))
			return v, b.st
		},
		"time.Since": func(b *bctx) (Val, *State) { return b.x.freshVal("since", b.resT.At(0).Type()), b.st },
		"(*sync.Mutex).Lock":      bLock("W", true),
		"(*sync.Mutex).Unlock":    bLock("W", false),
		"(*sync.RWMutex).Lock":    bLock("W", true),
		"(*sync.RWMutex).Unlock":  bLock("W", false),
		"(*sync.RWMutex).RLock":   bLock("R", true),
		"(*sync.RWMutex).RUnlock": bLock("R", false),
		"(*sync/atomic.Int64).Load": func(b *bctx) (Val, *State) {
			l := b.x.atomicLoc(b.args[0])
			v := b.x.load(b.st, l)
			v.T = tInt64
			b.x.assumeRange(v)
			return v, b.st
		},
		"(*sync/atomic.Int64).Store": func(b *bctx) (Val, *State) {
			l := b.x.atomicLoc(b.args[0])
			b.x.lockCheck(b.st, l, true, b.reach, b.pos)
			b.x.storeLoc(b.st, l, b.args[1].S)
			return Val{T: b.resT}, b.st
		},
		"(*sync/atomic.Int64).Add": func(b *bctx) (Val, *State) {
			l := b.x.atomicLoc(b.args[0])
			nv := add(b.x.load(b.st, l).S, b.args[1].S)
			b.x.storeLoc(b.st, l, nv)
			return Val{T: tInt64, S: nv}, b.st
		},
		"sort.Search": bSortSearch,
		"(encoding/binary.bigEndian).Uint64":       bBEGet(8),
		"(encoding/binary.bigEndian).Uint32":       bBEGet(4),
		"(encoding/binary.bigEndian).PutUint64":    bBEPut(8),
		"(encoding/binary.bigEndian).PutUint32":    bBEPut(4),
		"(encoding/binary.bigEndian).AppendUint64": bBEAppend(8),
		"hash/crc32.Checksum": func(b *bctx) (Val, *State) {
			// CRC32 is an uninterpreted function of the byte content (the table is fixed)
			b.x.sc.declFun("crc32c", []string{"BSeq"}, "Int")
			b.x.sc.declare("ax:crc32c", "(assert (forall ((s BSeq)) (! (and (<= 0 (crc32c s)) (<= (crc32c s) 4294967295)) :pattern ((crc32c s)))))")
			return Val{T: b.resT.At(0).Type(), S: app("crc32c", b.x.bseq(b.st, b.args[0]))}, b.st
		},
		"maps.Clone":  bMapsClone,
		"context.Context.Err": func(b *bctx) (Val, *State) {
			// nil, context.Canceled or context.DeadlineExceeded: never a klevdb sentinel
			v := b.x.freshVal("ctxerr", b.resT.At(0).Type())
			b.x.declIOErr()
			b.x.sc.assert(or(eq(v.S, "nilErr"), app("ioErr", v.S)))
			return v, b.st
		},
		"context.Context.Done": func(b *bctx) (Val, *State) {
			return b.x.freshVal("ctxdone", b.resT.At(0).Type()), b.st
		},
		"path/filepath.Join": func(b *bctx) (Val, *State) {
			vs := b.x.variadicVals(b.fr, b.call.Args[0])
			if vs == nil {
				return b.x.freshVal("join", b.resT.At(0).Type()), b.st
			}
			b.x.sc.declFun("pathJoin", []string{"Str", "Str"}, "Str")
			b.x.sc.declare("ax:pathJoin", "(assert (forall ((a Str) (b Str) (c Str) (d Str)) (! (=> (= (pathJoin a b) (pathJoin c d)) (and (= a c) (= b d))) :pattern ((pathJoin a b) (pathJoin c d)))))")
			r := vs[0].S
			for _, v := range vs[1:] {
				r = app("pathJoin", r, v.S)
			}
			return Val{T: b.resT.At(0).Type(), S: r}, b.st
		},
		"path/filepath.Dir": func(b *bctx) (Val, *State) {
			b.x.sc.declFun("pathDir", []string{"Str"}, "Str")
			return Val{T: b.resT.At(0).Type(), S: app("pathDir", b.args[0].S)}, b.st
		},
		"os.IsNotExist": func(b *bctx) (Val, *State) {
			return Val{T: tBool, S: app("wraps", b.args[0].S, b.x.errConst("io/fs.ErrNotExist"))}, b.st
		},
		"os.IsExist": func(b *bctx) (Val, *State) {
			return Val{T: tBool, S: app("wraps", b.args[0].S, b.x.errConst("io/fs.ErrExist"))}, b.st
		},
	}
}

func (e *Engine) hasBuiltin(callee *ssa.Function) bool {
	_, ok := builtinTable[fullName(callee)]
	return ok
}
func (e *Engine) builtinInvoke(key string) bool { _, ok := builtinTable[key]; return ok }

func (e *Engine) builtinCall(x *Exec, fr *Frame, name string, args []Val, resT *types.Tuple, st *State, reach Term, pos token.Pos) (Val, *State, bool) {
	h, ok := builtinTable[name]
	if !ok {
		return Val{}, nil, false
	}
	x.trustedUsed[name] = true
	v, nst := h(&bctx{x: x, fr: fr, name: name, args: args, resT: resT, st: st, reach: reach, pos: pos, call: x.curCall})
	return v, nst, true
}

// builtinWrites: heap effect of builtins for loop havoc.
func (e *Engine) builtinWrites(x *Exec, name string, c *ssa.CallCommon, w *writeSet) {
	switch name {
	case "(*sync/atomic.Int64).Store", "(*sync/atomic.Int64).Add":
		x.addrRoot(c.Args[0], w)
	case "maps.Clone":
		if mt, ok := under(c.Args[0].Type()).(*types.Map); ok {
			dk, _, vk, _ := x.mapKeys(mt)
			w.keys[dk] = true
			w.keys[vk] = true
		}
	}
}

func (x *Exec) atomicLoc(p Val) *Loc {
	if p.L == nil {
		x.fail("atomic operation on a non-field pointer")
	}
	return p.L
}

// variadicVals recovers the elements of a variadic argument built at the call site.
func (x *Exec) variadicVals(fr *Frame, v ssa.Value) []Val {
	sl, ok := v.(*ssa.Slice)
	if !ok {
		if c, ok := v.(*ssa.Const); ok && c.Value == nil {
			return []Val{}
		}
		return nil
	}
	al, ok := sl.X.(*ssa.Alloc)
	if !ok {
		return nil
	}
	at := al.Type().(*types.Pointer).Elem().Underlying().(*types.Array)
	out := make([]Val, at.Len())
	found := 0
	for _, r := range *al.Referrers() {
		ia, ok := r.(*ssa.IndexAddr)
		if !ok {
			continue
		}
		c, ok := ia.Index.(*ssa.Const)
		if !ok {
			return nil
		}
		idx, _ := constant.Int64Val(c.Value)
		for _, r2 := range *ia.Referrers() {
			if st, ok := r2.(*ssa.Store); ok && st.Addr == ia {
				src := st.Val
				// unwrap interface boxing
				for {
					switch u := src.(type) {
					case *ssa.MakeInterface:
						src = u.X
						continue
					case *ssa.ChangeInterface:
						src = u.X
						continue
					}
					break
				}
				out[idx] = x.val(fr, src)
				found++
			}
		}
	}
	if found != len(out) {
		return nil
	}
	return out
}

func fmtVerbs(format string) []byte {
	var vs []byte
	for i := 0; i < len(format); i++ {
		if format[i] != '%' {
			continue
		}
		i++
		for i < len(format) && strings.IndexByte("+-# 0123456789.*[]", format[i]) >= 0 {
			i++
		}
		if i < len(format) {
			if format[i] != '%' {
				vs = append(vs, format[i])
			}
		}
	}
	return vs
}

func bErrorf(b *bctx) (Val, *State) {
	x := b.x
	var wrapped []Term
	format := ""
	if c, ok := b.call.Args[0].(*ssa.Const); ok && c.Value != nil {
		format = constant.StringVal(c.Value)
	}
	vs := x.variadicVals(b.fr, b.call.Args[1])
	verbs := fmtVerbs(format)
	if vs == nil && strings.Contains(format, "%w") {
		x.sc.note("fmt.Errorf with untraceable arguments: result wraps nothing known")
		e := x.sc.freshConst("ferr", "Err")
		x.sc.assert(not(eq(e, "nilErr")))
		return Val{T: b.resT.At(0).Type(), S: e}, b.st
	}
	for i, vb := range verbs {
		if vb == 'w' && i < len(vs) && isErrorType(vs[i].T) {
			wrapped = append(wrapped, vs[i].S)
		}
	}
	return Val{T: b.resT.At(0).Type(), S: x.freshErr(wrapped)}, b.st
}

func bSprintf(b *bctx) (Val, *State) {
	x := b.x
	format := ""
	if c, ok := b.call.Args[0].(*ssa.Const); ok && c.Value != nil {
		format = constant.StringVal(c.Value)
	}
	vs := x.variadicVals(b.fr, b.call.Args[1])
	if vs == nil {
		return x.freshVal("sprintf", b.resT.At(0).Type()), b.st
	}
	var sorts []string
	var terms []Term
	for _, v := range vs {
		if v.S == "" {
			return x.freshVal("sprintf", b.resT.At(0).Type()), b.st
		}
		sorts = append(sorts, x.so.sortOf(v.T))
		terms = append(terms, v.S)
	}
	fn := "sprintf_" + sanitize(strings.TrimPrefix(x.so.strConst(format), "str!")) + "_" + fmt.Sprint(len(vs))
	x.sc.declFun(fn, sorts, "Str")
	// injective in its arguments (formats used in /repo print every argument unambiguously)
	if len(vs) > 0 {
		var bs, cs, eqs []string
		for i, s := range sorts {
			bs = append(bs, fmt.Sprintf("(a%d %s)", i, s), fmt.Sprintf("(b%d %s)", i, s))
			cs = append(cs, fmt.Sprintf("a%d", i))
			eqs = append(eqs, fmt.Sprintf("(= a%d b%d)", i, i))
		}
		var ds []string
		for i := range sorts {
			ds = append(ds, fmt.Sprintf("b%d", i))
		}
		x.sc.declare("ax:"+fn, fmt.Sprintf("(assert (forall (%s) (! (=> (= (%s %s) (%s %s)) %s) :pattern ((%s %s) (%s %s)))))",
			strings.Join(bs, " "), fn, strings.Join(cs, " "), fn, strings.Join(ds, " "), and(eqs...), fn, strings.Join(cs, " "), fn, strings.Join(ds, " ")))
		x.trustedUsed["fmt.Sprintf("+fmt.Sprintf("%q", format)+") injective in its arguments"] = true
	}
	return Val{T: b.resT.At(0).Type(), S: app(fn, terms...)}, b.st
}

// sort.Search(n, f): for ANY predicate f the binary search returns r with
// 0<=r<=n, (r==0 || !f(r-1)) and (r==n || f(r)). Minimality then follows from
// monotonicity of f, which the caller's contract has to provide.
func bSortSearch(b *bctx) (Val, *State) {
	x := b.x
	n := b.args[0].S
	f := b.args[1]
	if f.Fn == nil {
		x.fail("sort.Search with a dynamic predicate")
	}
	r := x.sc.freshConst("search", "Int")
	x.sc.assert(implies(b.reach, and(le("0", r), le(r, n))))
	x.sc.assert(implies(b.reach, le("0", n)))
	evalAt := func(idx Term, guard Term) Term {
		x.depth++
		defer func() { x.depth-- }()
		rets, _, rr := x.run(f.Fn, []Val{{T: tInt, S: idx}}, f.Bind, b.st.clone(), and(b.reach, guard), false, b.pos)
		if rr == "false" || len(rets) == 0 {
			return "true"
		}
		return rets[0].S
	}
	// no panic for any index the search may probe
	j := x.sc.freshConst("probe", "Int")
	_ = evalAt(j, and(le("0", j), lt(j, n)))
	atR := evalAt(r, lt(r, n))
	x.sc.assert(implies(and(b.reach, lt(r, n)), atR))
	prev := sub(r, "1")
	atP := evalAt(prev, lt("0", r))
	x.sc.assert(implies(and(b.reach, lt("0", r)), not(atP)))
	return Val{T: tInt, S: r}, b.st
}

func bMapsClone(b *bctx) (Val, *State) {
	x := b.x
	m := b.args[0]
	mt := under(m.T).(*types.Map)
	dk, ds, vk, vs := x.mapKeys(mt)
	ref := x.freshRef()
	h := x.heapGet(b.st, dk, ds)
	// Clone(nil) == nil
	res := x.name("clone", "Int", ite(eq(m.S, "0"), "0", ref))
	b.st.heap[dk] = x.name("h", ds, store(h, ref, sel(h, m.S)))
	if x.so.sortOf(mt.Elem()) != "Unit" {
		hv := x.heapGet(b.st, vk, vs)
		b.st.heap[vk] = x.name("h", vs, store(hv, ref, sel(hv, m.S)))
	}
	return Val{T: b.resT.At(0).Type(), S: res}, b.st
}

func bLock(mode string, acquire bool) bhandler {
	return func(b *bctx) (Val, *State) {
		b.x.lockOp(b, mode, acquire)
		return Val{T: b.resT}, b.st
	}
}

func sortedKeys[V any](m map[string]V) []string {
	var ks []string
	for k := range m {
		ks = append(ks, k)
	}
	sort.Strings(ks)
	return ks
}

// big-endian decoding: value = sum b[off+i] * 256^(n-1-i); panics if the slice is too short
func beValue(arr Term, off Term, n int) Term {
	var parts []Term
	for i := 0; i < n; i++ {
		byteT := sel(arr, add(off, fmt.Sprint(i)))
		w := pow2(8 * (n - 1 - i))
		if w == "1" {
			parts = append(parts, byteT)
		} else {
			parts = append(parts, "(* "+w+" "+byteT+")")
		}
	}
	return "(+ " + strings.Join(parts, " ") + ")"
}

func bBEGet(n int) bhandler {
	return func(b *bctx) (Val, *State) {
		x := b.x
		s := b.args[len(b.args)-1]
		x.oblige("panic", "be-len", implies(b.reach, le(fmt.Sprint(n), app("s_len", s.S))), b.pos, fmt.Sprintf("BigEndian read needs %d bytes", n))
		key, srt := x.elemKey(types.Typ[types.Uint8])
		arr := sel(x.heapGet(b.st, key, srt), app("s_reg", s.S))
		v := Val{T: b.resT.At(0).Type(), S: x.name("be", "Int", beValue(arr, app("s_off", s.S), n))}
		// bytes are in 0..255, so the value is in range
		for i := 0; i < n; i++ {
			bt := sel(arr, add(app("s_off", s.S), fmt.Sprint(i)))
			x.assumeHere("(and (<= 0 " + bt + ") (<= " + bt + " 255))")
		}
		return v, b.st
	}
}

func bBEPut(n int) bhandler {
	return func(b *bctx) (Val, *State) {
		x := b.x
		s := b.args[len(b.args)-2]
		v := b.args[len(b.args)-1]
		x.oblige("panic", "be-len", implies(b.reach, le(fmt.Sprint(n), app("s_len", s.S))), b.pos, fmt.Sprintf("BigEndian write needs %d bytes", n))
		key, srt := x.elemKey(types.Typ[types.Uint8])
		h := x.heapGet(b.st, key, srt)
		arr := sel(h, app("s_reg", s.S))
		na := arr
		for i := 0; i < n; i++ {
			byteV := fmt.Sprintf("(mod (div %s %s) 256)", v.S, pow2(8*(n-1-i)))
			na = store(na, add(app("s_off", s.S), fmt.Sprint(i)), byteV)
		}
		nac := x.sc.freshConst("bearr", "(Array Int Int)")
		x.sc.assert(eq(nac, na))
		// the written bytes decode back to the value (byte extraction lemma, instantiated for v)
		x.sc.assert(implies(and(le("0", v.S), lt(v.S, pow2(8*n))), eq(beValue(nac, app("s_off", s.S), n), v.S)))
		x.trustedUsed[fmt.Sprintf("byte-extraction lemma: sum_i ((v div 256^i) mod 256)*256^i = v for 0 <= v < 2^%d (instantiated at each BigEndian.Put)", 8*n)] = true
		b.st.heap[key] = x.name("h", srt, store(h, app("s_reg", s.S), nac))
		return Val{T: b.resT}, b.st
	}
}

func bBEAppend(n int) bhandler {
	return func(b *bctx) (Val, *State) {
		x := b.x
		// only used at package init (trailerMagicData); model as a fresh slice of n bytes holding the value
		v := b.args[len(b.args)-1]
		reg := x.freshRef()
		key, srt := x.elemKey(types.Typ[types.Uint8])
		h := x.heapGet(b.st, key, srt)
		arr := x.sc.freshConst("bearr", "(Array Int Int)")
		x.sc.assert(eq(beValue(arr, "0", n), v.S))
		for i := 0; i < n; i++ {
			x.sc.assert(fmt.Sprintf("(and (<= 0 (select %s %d)) (<= (select %s %d) 255))", arr, i, arr, i))
		}
		if c, ok := constOf(v.S); ok {
			// constant value: the bytes are known
			for i := 0; i < n; i++ {
				x.sc.assert(eq(sel(arr, fmt.Sprint(i)), fmt.Sprint((c>>(uint(8*(n-1-i))))&0xff)))
			}
		}
		b.st.heap[key] = x.name("h", srt, store(h, reg, arr))
		return Val{T: b.resT.At(0).Type(), S: fmt.Sprintf("(mk_slice %s 0 %d %d)", reg, n, n)}, b.st
	}
}
