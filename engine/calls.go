package main

import (
	"fmt"
	"go/token"
	"go/types"
	"strings"

	"golang.org/x/tools/go/ssa"
)

func fullName(f *ssa.Function) string {
	if f.Origin() != nil {
		f = f.Origin()
	}
	return f.String()
}

// ifaceKey names an interface method contract: pkg.Iface.Method
func (x *Exec) ifaceKey(c *ssa.CallCommon) string {
	t := types.Unalias(c.Value.Type())
	if nt, ok := t.(*types.Named); ok {
		pk := ""
		if nt.Obj().Pkg() != nil {
			pk = shortPkg(nt.Obj().Pkg().Path())
			if !strings.HasPrefix(nt.Obj().Pkg().Path(), modPath) {
				pk = nt.Obj().Pkg().Name()
			}
		}
		if pk == "" {
			return nt.Obj().Name() + "." + c.Method.Name()
		}
		return pk + "." + nt.Obj().Name() + "." + c.Method.Name()
	}
	if tp, ok := t.(*types.TypeParam); ok {
		return "typeparam." + tp.Obj().Name() + "." + c.Method.Name()
	}
	return "iface." + c.Method.Name()
}

// funcFieldKey recognises a call through a function-typed struct field:
// v = *(&obj.f)  ->  pkg.Type.f
func (x *Exec) funcFieldKey(v ssa.Value) string {
	u, ok := v.(*ssa.UnOp)
	if !ok || u.Op != token.MUL {
		return ""
	}
	fa, ok := u.X.(*ssa.FieldAddr)
	if !ok {
		return ""
	}
	pt, ok := under(fa.X.Type()).(*types.Pointer)
	if !ok {
		return ""
	}
	nt, ok := types.Unalias(pt.Elem()).(*types.Named)
	if !ok {
		return ""
	}
	st := nt.Underlying().(*types.Struct)
	return shortPkg(nt.Obj().Pkg().Path()) + "." + nt.Obj().Name() + "." + st.Field(fa.Field).Name()
}

func (x *Exec) call(fr *Frame, instr ssa.Instruction, c *ssa.CallCommon, st *State, reach Term, pos token.Pos) (Val, *State) {
	x.curPos = pos
	x.curCall = c
	var args []Val
	for _, a := range c.Args {
		args = append(args, x.val(fr, a))
	}
	resT := c.Signature().Results()
	x.curArgs = args
	// builtins
	if b, ok := c.Value.(*ssa.Builtin); ok {
		return x.builtin(fr, b, c, args, st, reach, pos)
	}
	if c.IsInvoke() {
		recv := x.val(fr, c.Value)
		key := x.ifaceKey(c)
		x.callAnchors(fr, key, st, reach, pos)
		if _, ok := types.Unalias(c.Value.Type()).(*types.TypeParam); ok {
			// method of a type parameter: pure uninterpreted function of the receiver
			x.trustedUsed["method "+c.Method.Name()+" of the type parameter is a pure function of its receiver (every instantiation in /repo carries a `def` contract)"] = true
			fn := "tpm_" + sanitize(key)
			var as []string
			as = append(as, x.so.sortOf(recv.T))
			x.sc.declFun(fn, as, x.so.sortOf(resT.At(0).Type()))
			r := Val{T: resT.At(0).Type(), S: app(fn, recv.S)}
			x.assumeRange(r)
			return r, st
		}
		if fc := x.eng.cs.Funcs[key]; fc != nil {
			names := []string{"self"}
			sig := c.Method.Type().(*types.Signature)
			for i := 0; i < sig.Params().Len(); i++ {
				n := sig.Params().At(i).Name()
				if n == "" || n == "_" {
					n = fmt.Sprintf("p%d", i)
				}
				names = append(names, n)
			}
			return x.applyContract(fc, key, names, append([]Val{recv}, args...), sig.Results(), st, reach, pos)
		}
		if v, nst, ok := x.eng.builtinCall(x, fr, key, append([]Val{recv}, args...), resT, st, reach, pos); ok {
			return v, nst
		}
		return x.havocCall(key, resT, st, reach, pos)
	}
	// static callee?
	var callee *ssa.Function
	var binds []Val
	var recvBound *Val
	switch v := c.Value.(type) {
	case *ssa.Function:
		callee = v
	case *ssa.MakeClosure:
		callee = v.Fn.(*ssa.Function)
		for _, b := range v.Bindings {
			binds = append(binds, x.val(fr, b))
		}
	default:
		fv := x.val(fr, c.Value)
		if fv.Fn != nil {
			callee = fv.Fn
			binds = fv.Bind
			recvBound = fv.Recv
		}
	}
	if callee == nil {
		if key := x.funcFieldKey(c.Value); key != "" {
			if fc := x.eng.cs.Funcs[key]; fc != nil {
				owner := x.val(fr, c.Value.(*ssa.UnOp).X.(*ssa.FieldAddr).X)
				names := []string{"self"}
				sig := c.Signature()
				for i := 0; i < sig.Params().Len(); i++ {
					n := sig.Params().At(i).Name()
					if n == "" || n == "_" {
						n = fmt.Sprintf("p%d", i)
					}
					names = append(names, n)
				}
				return x.applyContract(fc, key, names, append([]Val{owner}, args...), sig.Results(), st, reach, pos)
			}
			return x.havocCall(key, resT, st, reach, pos)
		}
		// value of a named function type: contract `field pkg.TypeName`
		if nt, ok := types.Unalias(c.Value.Type()).(*types.Named); ok && nt.Obj().Pkg() != nil {
			key := shortPkg(nt.Obj().Pkg().Path()) + "." + nt.Obj().Name()
			if fc := x.eng.cs.Funcs[key]; fc != nil {
				fv := x.val(fr, c.Value)
				names := []string{"self"}
				sig := c.Signature()
				for i := 0; i < sig.Params().Len(); i++ {
					n := sig.Params().At(i).Name()
					if n == "" || n == "_" {
						n = fmt.Sprintf("p%d", i)
					}
					names = append(names, n)
				}
				return x.applyContract(fc, key, names, append([]Val{fv}, args...), sig.Results(), st, reach, pos)
			}
		}
		return x.havocCall("dynamic call "+c.Value.Name(), resT, st, reach, pos)
	}
	if recvBound != nil {
		args = append([]Val{*recvBound}, args...)
	}
	inst := callee
	if callee.Origin() != nil {
		callee = callee.Origin()
	}
	// bound method closures: (*T).M$bound
	if strings.HasSuffix(callee.Name(), "$bound") && len(binds) == 1 {
		// find the real method
		if m := x.boundTarget(callee); m != nil {
			args = append([]Val{binds[0]}, args...)
			binds = nil
			callee = m
		}
	}
	key := funcKey(callee)
	if callee.Pkg == nil || !strings.HasPrefix(callee.Pkg.Pkg.Path(), modPath) {
		key = fullName(callee)
	}
	x.callAnchors(fr, key, st, reach, pos)
	if fc := x.eng.cs.Funcs[key]; fc != nil && !fc.Flags["inline"] && !(x.fnKey == key && false) {
		var names []string
		if len(fc.Params) > 0 {
			names = fc.Params
		} else {
			for _, p := range callee.Params {
				names = append(names, p.Name())
			}
		}
		if len(names) != len(args) {
			x.fail("contract %s: %d parameter names for %d arguments", key, len(names), len(args))
		}
		_ = inst
		return x.applyContract(fc, key, names, args, x.instSig(inst, c).Results(), st, reach, pos)
	}
	if v, nst, ok := x.eng.builtinCall(x, fr, fullName(callee), args, resT, st, reach, pos); ok {
		return v, nst
	}
	thinHavoc := false
	if len(x.only) > 0 && callee.Blocks != nil {
		if len(x.only) == 1 && x.only[0] == "locks" {
			thinHavoc = !x.eng.touchesLocks(x, callee, 0)
		} else if !strings.HasPrefix(pkgOf(callee), modPath) {
			// library function without contract: handled by havocCall (results arbitrary, no effect on klevdb state)
			return x.havocCall(key, resT, st, reach, pos)
		} else if hasLoops(callee) || x.depth >= 5 {
			thinHavoc = true
			x.sc.note("thin unit: call to %s (loops, no contract) abstracted", key)
		}
	}
	if (x.flags["lockonly"] && callee.Blocks != nil && !x.eng.touchesLocks(x, callee, 0)) || thinHavoc {
		// lock-discipline unit: a callee without lock operations or guarded accesses is irrelevant
		nst := st.clone()
		x.havocAll(nst)
		var rets []Val
		for i := 0; i < resT.Len(); i++ {
			rets = append(rets, x.freshVal("hv_ret", resT.At(i).Type()))
		}
		return x.packResults(resT, rets), nst
	}
	if callee.Blocks != nil && x.depth < 6 && strings.HasPrefix(pkgOf(callee), modPath) {
		// inline
		x.depth++
		defer func() { x.depth-- }()
		target := callee
		if inst.Origin() != nil {
			// generic instance: run the generic body is not possible with concrete values; refuse
			x.fail("call to generic %s needs a contract", key)
		}
		x.calleesUsed["inlined:"+key] = true
		rets, nst, rreach := x.run(target, args, binds, st.clone(), reach, false, pos)
		if rreach == "false" {
			return Val{T: resT}, nst
		}
		return x.packResults(resT, rets), nst
	}
	if callee.Blocks != nil && len(binds) > 0 {
		x.fail("closure %s cannot be inlined here", key)
	}
	return x.havocCall(key, resT, st, reach, pos)
}

func (x *Exec) instSig(inst *ssa.Function, c *ssa.CallCommon) *types.Signature {
	return c.Signature()
}

func pkgOf(f *ssa.Function) string {
	if f.Pkg != nil {
		return f.Pkg.Pkg.Path()
	}
	if f.Parent() != nil {
		return pkgOf(f.Parent())
	}
	if f.Object() != nil && f.Object().Pkg() != nil {
		return f.Object().Pkg().Path()
	}
	return ""
}

func (x *Exec) boundTarget(b *ssa.Function) *ssa.Function {
	// the $bound wrapper calls the method on its free variable
	for _, blk := range b.Blocks {
		for _, in := range blk.Instrs {
			if c, ok := in.(*ssa.Call); ok {
				if f := c.Call.StaticCallee(); f != nil {
					return f
				}
			}
		}
	}
	return nil
}

func (x *Exec) packResults(resT *types.Tuple, rets []Val) Val {
	switch resT.Len() {
	case 0:
		return Val{T: resT}
	case 1:
		return rets[0]
	}
	return Val{T: resT, Tup: rets}
}

func (x *Exec) freshVal(prefix string, t types.Type) Val {
	if tt, ok := t.(*types.Tuple); ok {
		v := Val{T: t}
		for i := 0; i < tt.Len(); i++ {
			v.Tup = append(v.Tup, x.freshVal(prefix, tt.At(i).Type()))
		}
		return v
	}
	v := Val{T: t, S: x.sc.freshConst(prefix, x.so.sortOf(t))}
	x.assumeRange(v)
	return v
}

func (x *Exec) havocCall(what string, resT *types.Tuple, st *State, reach Term, pos token.Pos) (Val, *State) {
	nst := st.clone()
	if len(x.only) > 0 && !strings.HasPrefix(what, "klevdb.") && !strings.HasPrefix(what, "index.") && !strings.HasPrefix(what, "message.") &&
		!strings.HasPrefix(what, "segment.") && !strings.HasPrefix(what, "kdir.") && !strings.HasPrefix(what, "notify.") && !strings.HasPrefix(what, "dynamic call") {
		// thin unit: a library call without contract yields arbitrary results but does not touch klevdb's
		// heap, its mutexes or the ghost file system
		x.sc.note("thin unit: library call %s: results arbitrary; the slices and local variables passed to it are overwritten arbitrarily; no other effect on klevdb state assumed", what)
		for _, a := range x.curArgs {
			x.havocArg(nst, a)
		}
	} else {
		x.sc.note("call to %s has no contract: results and heap havocked", what)
		x.havocAll(nst)
	}
	var rets []Val
	for i := 0; i < resT.Len(); i++ {
		rets = append(rets, x.freshVal("hv_ret", resT.At(i).Type()))
	}
	return x.packResults(resT, rets), nst
}

// havocArg: a library call without contract may write through the slices and pointers it is given.
func (x *Exec) havocArg(st *State, a Val) {
	if a.T == nil || a.S == "" {
		return
	}
	switch t := under(a.T).(type) {
	case *types.Slice:
		if strings.Contains(a.S, "(") && len(a.S) > 400 {
			return
		}
		key, srt := x.elemKey(t.Elem())
		h := x.heapGet(st, key, srt)
		es := x.so.sortOf(t.Elem())
		na := x.sc.freshConst("hv_elems", "(Array Int "+es+")")
		x.sc.assert(fmt.Sprintf("(forall ((i Int)) (! (=> (or (< i (s_off %s)) (>= i (+ (s_off %s) (s_cap %s)))) (= (select %s i) (select (select %s (s_reg %s)) i))) :pattern ((select %s i))))",
			a.S, a.S, a.S, na, h, a.S, na))
		if es == "Int" {
			if b, ok := t.Elem().Underlying().(*types.Basic); ok && b.Kind() == types.Uint8 {
				x.sc.assert(fmt.Sprintf("(forall ((i Int)) (! (and (<= 0 (select %s i)) (<= (select %s i) 255)) :pattern ((select %s i))))", na, na, na))
			}
		}
		st.heap[key] = x.name("h", srt, store(h, app("s_reg", a.S), na))
	case *types.Pointer:
		if a.L != nil {
			if a.L.ArrRegion != "" && a.L.ArrRegion != "0" {
				return
			}
			nv := x.freshVal("hv_deref", a.L.T)
			x.storeLoc(st, a.L, nv.S)
		}
	}
}

// applyContract: modular call — check requires, havoc assigns, assume ensures.
func (x *Exec) applyContract(fc *FuncContract, key string, names []string, args []Val, resT *types.Tuple, st *State, reach Term, pos token.Pos) (Val, *State) {
	x.callSeq["call:"+key]++
	k := x.callSeq["call:"+key]
	x.calleesUsed[key] = true
	if fc.Kind == "trusted" || fc.Flags["assumed"] {
		x.trustedUsed[key] = true
	}
	pkg := x.eng.pkgForContract(fc)
	env := &Env{vars: map[string]Val{}, cur: st, old: st, pkg: pkg, x: x}
	if len(fc.Params) > 0 && len(fc.Params) == len(args) {
		names = fc.Params
	}
	for i, n := range names {
		if i < len(args) {
			env.vars[n] = args[i]
		}
	}
	short := key
	if i := strings.LastIndex(short, "."); i >= 0 && !strings.Contains(short[i:], ")") {
		short = short[strings.LastIndex(short[:i], ".")+1:]
	}
	short = shortCallee(key)
	for i, rq := range fc.Requires {
		t := x.trBool(rq.Expr, env)
		x.oblige("pre@"+short, fmt.Sprintf("%s#%d", labelOr(rq.Label, i), k), implies(reach, t), pos, rq.Text)
	}
	pre := st
	post := st.clone()
	// havoc assigns
	if fc.HasAssigns {
		x.havocAssigns(fc, env, post)
	}
	oldTop := fmt.Sprintf("(+ %s %d)", x.allocBase, x.allocN)
	nb := x.sc.freshConst("allocBase", "Int")
	x.sc.assert(le(oldTop, nb))
	x.allocBase = nb
	x.allocN = 0
	// whatever the callee stored refers to objects existing after the call
	for _, pc := range x.pendingClosure {
		x.closure(pc[0], pc[1], nb)
	}
	x.pendingClosure = nil
	// results
	var rets []Val
	penv := &Env{vars: map[string]Val{}, cur: post, old: pre, pkg: pkg, x: x, freshLo: oldTop, freshHi: nb}
	for n, v := range env.vars {
		penv.vars[n] = v
	}
	for i := 0; i < resT.Len(); i++ {
		rv := x.freshVal("ret_"+short, resT.At(i).Type())
		x.assumeAllocated(rv)
		rets = append(rets, rv)
		penv.vars[fmt.Sprintf("ret%d", i)] = rv
		if n := resT.At(i).Name(); n != "" && n != "_" {
			penv.vars[n] = rv
		}
		if i < len(fc.Results) {
			penv.vars[fc.Results[i]] = rv
		}
		if isErrorType(resT.At(i).Type()) {
			if _, ok := penv.vars["err"]; !ok {
				penv.vars["err"] = rv
			}
		}
	}
	if resT.Len() == 1 {
		penv.vars["result"] = rets[0]
	}
	// objects the callee returns (and what they point to) refer only to objects existing after the call
	seen := map[string]bool{}
	var closeOver func(t types.Type, depth int)
	closeOver = func(t types.Type, depth int) {
		pt, ok := under(t).(*types.Pointer)
		if !ok || depth > 2 {
			return
		}
		si := x.so.structOf(pt.Elem())
		if si == nil {
			return
		}
		for i, f := range si.Fields {
			switch under(f.T).(type) {
			case *types.Pointer, *types.Slice, *types.Map, *types.Interface, *types.Chan:
			default:
				continue
			}
			k, srt := x.fieldKey(si, i)
			if seen[k] {
				continue
			}
			seen[k] = true
			x.closure(k, x.heapGet(post, k, srt), nb)
			closeOver(f.T, depth+1)
		}
	}
	for i := 0; i < resT.Len(); i++ {
		closeOver(resT.At(i).Type(), 0)
	}
	if fc.Def != nil && resT.Len() == 1 {
		d := x.tr(fc.Def, env)
		x.sc.assert(implies(reach, eq(rets[0].S, d.S)))
	}
	for _, en := range fc.Ensures {
		x.sc.assert(implies(reach, x.trBool(en.Expr, penv)))
	}
	return x.packResults(resT, rets), post
}

func shortCallee(key string) string {
	// klevdb.(*reader).Consume -> (*reader).Consume ; index.Consume -> index.Consume
	if i := strings.Index(key, ".("); i >= 0 {
		return key[i+1:]
	}
	return key
}

// havocAssigns havocs exactly the locations named by the assigns clause.
func (x *Exec) havocAssigns(fc *FuncContract, env *Env, post *State) {
	type objHavoc struct {
		key  string
		refs []Term
	}
	byKey := map[string]*objHavoc{}
	var order []string
	for _, a := range fc.Assigns {
		switch t := a.(type) {
		case *CIdent:
			if t.Name == "all" {
				x.havocAll(post)
				continue
			}
			if gv, ok := x.eng.cs.GVars[t.Name]; ok {
				key, srt := x.ghostVarKey(gv)
				post.heap[key] = x.sc.freshConst("hv_"+t.Name, srt)
				continue
			}
			x.fail("assigns: unknown %s", t.Name)
		case *CUn:
			if t.Op == "*" {
				p := x.tr(t.X, env)
				if p.L != nil {
					if p.L.ArrRegion != "" && p.L.ArrRegion != "0" {
						continue
					}
					nv := x.freshVal("hv_deref", p.L.T)
					x.storeLoc(post, p.L, nv.S)
					continue
				}
				// pointer to heap struct: all fields of that object
				pt := under(p.T).(*types.Pointer)
				if si := x.so.structOf(pt.Elem()); si != nil {
					for i := range si.Fields {
						key, _ := x.fieldKey(si, i)
						oh := byKey[key]
						if oh == nil {
							oh = &objHavoc{key: key}
							byKey[key] = oh
							order = append(order, key)
						}
						oh.refs = append(oh.refs, p.S)
					}
					continue
				}
				key, srt := x.derefKey(pt.Elem())
				h := x.heapGet(post, key, srt)
				post.heap[key] = store(h, p.S, x.freshVal("hv_deref", pt.Elem()).S)
				continue
			}
			x.fail("assigns: unsupported %s", a.cstr())
		case *CSel:
			// pkg.Type.field (whole field of a type of another package)
			if q, ok := t.X.(*CSel); ok {
				if pid, ok := q.X.(*CIdent); ok {
					if _, isVar := env.vars[pid.Name]; !isVar {
						if pk := x.eng.importedPkg(env.pkg, pid.Name); pk != nil {
							if si, fi := x.eng.lookupTypeField(x, pk, q.Name, t.Name); si != nil {
								key, srt := x.fieldKeyOrGhost(si, fi, t.Name)
								post.heap[key] = x.sc.freshConst("hv_"+key, srt)
								continue
							}
						}
					}
				}
			}
			// Type.field (whole field) or expr.field (one object)
			if id, ok := t.X.(*CIdent); ok {
				if _, isVar := env.vars[id.Name]; !isVar {
					if si, fi := x.eng.lookupTypeField(x, env.pkg, id.Name, t.Name); si != nil {
						key, srt := x.fieldKeyOrGhost(si, fi, t.Name)
						post.heap[key] = x.sc.freshConst("hv_"+key, srt)
						continue
					}
				}
			}
			base := x.tr(t.X, env)
			loc := x.selLoc(base, t.Name, env)
			if loc == nil {
				x.fail("assigns: cannot resolve %s", a.cstr())
			}
			switch loc.Kind {
			case lField:
				oh := byKey[loc.Key]
				if oh == nil {
					oh = &objHavoc{key: loc.Key}
					byKey[loc.Key] = oh
					order = append(order, loc.Key)
				}
				oh.refs = append(oh.refs, loc.Ref)
			default:
				nv := x.freshVal("hv_loc", loc.T)
				x.storeLoc(post, loc, nv.S)
			}
		case *CCall:
			// elems(s): contents of a slice
			if id, ok := t.Fun.(*CIdent); ok && id.Name == "elems" && len(t.Args) == 1 {
				s := x.tr(t.Args[0], env)
				slt := under(s.T).(*types.Slice)
				key, srt := x.elemKey(slt.Elem())
				h := x.heapGet(post, key, srt)
				es := x.so.sortOf(slt.Elem())
				na := x.sc.freshConst("hv_elems", "(Array Int "+es+")")
				// only indices inside the slice's capacity window change
				x.sc.assert(fmt.Sprintf("(forall ((i Int)) (! (=> (or (< i (s_off %s)) (>= i (+ (s_off %s) (s_cap %s)))) (= (select %s i) (select (select %s (s_reg %s)) i))) :pattern ((select %s i))))",
					s.S, s.S, s.S, na, h, s.S, na))
				post.heap[key] = x.name("h", srt, store(h, app("s_reg", s.S), na))
				continue
			}
			x.fail("assigns: unsupported %s", a.cstr())
		default:
			x.fail("assigns: unsupported %s", a.cstr())
		}
	}
	for _, key := range order {
		oh := byKey[key]
		srt := x.heapSort[key]
		h := x.heapGet(post, key, srt)
		nh := x.sc.freshConst("hv_"+key, srt)
		var ne []Term
		for _, r := range oh.refs {
			ne = append(ne, not(eq("r", r)))
		}
		x.sc.assert(fmt.Sprintf("(forall ((r Int)) (! (=> %s (= (select %s r) (select %s r))) :pattern ((select %s r))))", and(ne...), nh, h, nh))
		post.heap[key] = nh
		x.pendingClosure = append(x.pendingClosure, [2]string{key, nh})
	}
}

// ---------------- builtins of the language ----------------

func (x *Exec) builtin(fr *Frame, b *ssa.Builtin, c *ssa.CallCommon, args []Val, st *State, reach Term, pos token.Pos) (Val, *State) {
	rt := c.Signature().Results()
	var resT types.Type
	if rt.Len() > 0 {
		resT = rt.At(0).Type()
	}
	switch b.Name() {
	case "len":
		return Val{T: resT, S: x.lenOf(st, args[0])}, st
	case "cap":
		return Val{T: resT, S: app("s_cap", args[0].S)}, st
	case "min":
		r := args[0].S
		for _, a := range args[1:] {
			r = app("imin", r, a.S)
		}
		return Val{T: resT, S: r}, st
	case "max":
		r := args[0].S
		for _, a := range args[1:] {
			r = app("imax", r, a.S)
		}
		return Val{T: resT, S: r}, st
	case "append":
		return x.appendOp(args, resT, st, reach, pos)
	case "copy":
		return x.copyOp(args, resT, st, reach)
	case "delete":
		x.mapDelete(st, args[0], args[1])
		return Val{T: rt}, st
	case "print", "println":
		return Val{T: rt}, st
	case "close":
		x.chanClose(args[0], st, reach, pos)
		return Val{T: rt}, st
	}
	x.fail("builtin %s", b.Name())
	return Val{}, st
}

func (x *Exec) lenOf(st *State, v Val) Term {
	switch t := under(v.T).(type) {
	case *types.Slice:
		return app("s_len", v.S)
	case *types.Map:
		return x.mapLen(st, v)
	case *types.Basic:
		x.sc.declFun("strlen", []string{"Str"}, "Int")
		x.sc.assert(le("0", app("strlen", v.S)))
		return app("strlen", v.S)
	case *types.Array:
		return intLit(t.Len())
	case *types.Pointer:
		if at, ok := under(t.Elem()).(*types.Array); ok {
			return intLit(at.Len())
		}
	}
	x.fail("len of %s", v.T)
	return ""
}

// appendOp models append(s, t...) with Go's aliasing rule.
func (x *Exec) appendOp(args []Val, resT types.Type, st *State, reach Term, pos token.Pos) (Val, *State) {
	s, t := args[0], args[1]
	// name the operands: they appear in quantifier patterns, which must not contain ite terms
	if strings.Contains(s.S, "(") {
		c := x.sc.freshConst("apps", "Slice")
		x.sc.assert(eq(c, s.S))
		s.S = c
	}
	if strings.Contains(t.S, "(") {
		c := x.sc.freshConst("appt", "Slice")
		x.sc.assert(eq(c, t.S))
		t.S = c
	}
	slt := under(s.T).(*types.Slice)
	key, srt := x.elemKey(slt.Elem())
	es := x.so.sortOf(slt.Elem())
	h := x.heapGet(st, key, srt)
	var tlen Term
	if _, isStr := under(t.T).(*types.Basic); isStr {
		x.fail("append string")
	}
	tlen = app("s_len", t.S)
	newLen := add(app("s_len", s.S), tlen)
	fits := le(newLen, app("s_cap", s.S))
	// result header
	freshReg := x.freshRef()
	newCap := x.sc.freshConst("appcap", "Int")
	x.sc.assert(le(newLen, newCap))
	res := x.sc.freshConst("app", "Slice")
	x.sc.assert(eq(res, ite(fits,
		fmt.Sprintf("(mk_slice (s_reg %s) (s_off %s) %s (s_cap %s))", s.S, s.S, newLen, s.S),
		fmt.Sprintf("(mk_slice %s 0 %s %s)", freshReg, newLen, newCap))))
	// if the source is nil and nothing is appended the result is nil
	x.sc.assert(implies(and(eq(app("s_reg", s.S), "0"), eq(tlen, "0")), eq(res, s.S)))
	// contents of the result region
	na := x.sc.freshConst("apparr", "(Array Int "+es+")")
	srcArr := sel(h, app("s_reg", s.S))
	tArr := sel(h, app("s_reg", t.S))
	_ = app("s_off", res)
	// old elements keep their values (triggers on either slice's index term)
	x.sc.assert(fmt.Sprintf("(forall ((i Int)) (! (=> (and (<= 0 i) (< i (s_len %s))) (= (select %s (sidx (s_off %s) i)) (select %s (sidx (s_off %s) i)))) :pattern ((sidx (s_off %s) i)) :pattern ((sidx (s_off %s) i))))",
		s.S, na, res, srcArr, s.S, res, s.S))
	// appended elements, triggered from the source index ...
	x.sc.assert(fmt.Sprintf("(forall ((i Int)) (! (=> (and (<= 0 i) (< i %s)) (= (select %s (sidx (s_off %s) (+ (s_len %s) i))) (select %s (sidx (s_off %s) i)))) :pattern ((sidx (s_off %s) i))))",
		tlen, na, res, s.S, tArr, t.S, t.S))
	// ... and from the result index
	x.sc.assert(fmt.Sprintf("(forall ((k Int)) (! (=> (and (<= (s_len %s) k) (< k %s)) (= (select %s (sidx (s_off %s) k)) (select %s (sidx (s_off %s) (- k (s_len %s)))))) :pattern ((sidx (s_off %s) k))))",
		s.S, newLen, na, res, tArr, t.S, s.S, res))
	// in-place case: everything outside the appended window is unchanged
	x.sc.assert(implies(fits, fmt.Sprintf("(forall ((i Int)) (! (=> (or (< i (+ (s_off %s) (s_len %s))) (>= i (+ (s_off %s) %s))) (= (select %s i) (select %s i))) :pattern ((select %s i))))",
		s.S, s.S, s.S, newLen, na, srcArr, na)))
	nst := st
	nst.heap[key] = x.name("h", srt, store(h, app("s_reg", res), na))
	if x.allocN > 0 {
		// keep: fresh region consumed
	}
	return Val{T: resT, S: res}, nst
}

func (x *Exec) copyOp(args []Val, resT types.Type, st *State, reach Term) (Val, *State) {
	d, s := args[0], args[1]
	dlt := under(d.T).(*types.Slice)
	key, srt := x.elemKey(dlt.Elem())
	es := x.so.sortOf(dlt.Elem())
	h := x.heapGet(st, key, srt)
	var slen, sreg, soff Term
	if _, isSlice := under(s.T).(*types.Slice); isSlice {
		slen, sreg, soff = app("s_len", s.S), app("s_reg", s.S), app("s_off", s.S)
	} else {
		x.fail("copy from %s", s.T)
	}
	n := x.name("cpn", "Int", app("imin", app("s_len", d.S), slen))
	na := x.sc.freshConst("cparr", "(Array Int "+es+")")
	dArr := sel(h, app("s_reg", d.S))
	sArr := sel(h, sreg)
	x.sc.assert(fmt.Sprintf("(forall ((i Int)) (! (= (select %s i) (ite (and (<= (s_off %s) i) (< i (+ (s_off %s) %s))) (select %s (+ %s (- i (s_off %s)))) (select %s i))) :pattern ((select %s i))))",
		na, d.S, d.S, n, sArr, soff, d.S, dArr, na))
	st.heap[key] = x.name("h", srt, ite(eq(n, "0"), h, store(h, app("s_reg", d.S), na)))
	return Val{T: resT, S: n}, st
}

func hasLoops(fn *ssa.Function) bool {
	if fn.Blocks == nil {
		return false
	}
	_, back := rpo(fn)
	return len(back) > 0
}
