package main

import (
	"fmt"
	"sort"
	"go/token"
	"go/types"

	"golang.org/x/tools/go/ssa"
)

// Channels (used by pkg/notify only): a channel is an object with ghost state
//   chClosed[c]  it has been closed
//   chFull[c]    its (capacity-1) buffer holds a value     chVal[c]  that value (channel elements are references)
//   chCap[c]     its capacity
// Sequential semantics of ONE goroutine: a send needs room (obligation chan:send-room: it neither blocks nor
// panics - the token discipline of a mutex-by-channel), a close needs an open channel (obligation
// chan:close-open), a receive continues only with a buffered value or a close (assumed: a goroutine that
// blocks does not continue), a select picks one of its ready cases.
const (
	chClosedKey, chFullKey, chValKey, chCapKey = "X:chClosed", "X:chFull", "X:chVal", "X:chCap"
	chBoolSort, chIntSort                      = "(Array Int Bool)", "(Array Int Int)"
)

// the ghost arrays are kept per element type: channels of different element types are different objects
func chKey(key string, ct types.Type) (string, string) {
	srt := chBoolSort
	if key == chValKey || key == chCapKey {
		srt = chIntSort
	}
	el := "?"
	if c, ok := under(ct).(*types.Chan); ok {
		el = sanitize(types.TypeString(c.Elem(), nil))
	}
	return key + ":" + el, srt
}

func (x *Exec) chGet(st *State, key string, ct types.Type) Term {
	k, srt := chKey(key, ct)
	x.heapBase(k, srt)
	return x.heapGet(st, k, srt)
}

func (x *Exec) chSet(st *State, key string, ct types.Type, c Term, v Term) {
	k, srt := chKey(key, ct)
	st.heap[k] = x.name("ch", srt, store(x.chGet(st, key, ct), c, v))
}

func (x *Exec) makeChan(fr *Frame, t *ssa.MakeChan, st *State) Val {
	x.allocN++
	ref := fmt.Sprintf("(+ %s %d)", x.allocBase, x.allocN)
	c := x.name("chan", "Int", ref)
	x.chSet(st, chClosedKey, t.Type(), c, "false")
	x.chSet(st, chFullKey, t.Type(), c, "false")
	x.chSet(st, chCapKey, t.Type(), c, x.val(fr, t.Size).S)
	return Val{T: t.Type(), S: c}
}

func (x *Exec) chanSend(fr *Frame, t *ssa.Send, st *State, reach Term) {
	cv := x.val(fr, t.Chan)
	c, ct := cv.S, cv.T
	v := x.val(fr, t.X)
	room := and(not(eq(c, "0")), not(sel(x.chGet(st, chClosedKey, ct), c)), not(sel(x.chGet(st, chFullKey, ct), c)), le("1", sel(x.chGet(st, chCapKey, ct), c)))
	x.oblige("chan", "send-room", implies(reach, room), t.Pos(), "the send neither blocks nor panics: the channel is open and its buffer has room (token discipline)")
	x.chSet(st, chFullKey, ct, c, "true")
	if x.so.sortOf(v.T) == "Int" {
		x.chSet(st, chValKey, ct, c, v.S)
	}
}

// chanRecv returns (value, ok); the path continues only when a value is buffered or the channel is closed.
func (x *Exec) chanRecv(cv Val, elemT types.Type, st *State, reach Term) (Val, Term) {
	c, ct := cv.S, cv.T
	full := sel(x.chGet(st, chFullKey, ct), c)
	closed := sel(x.chGet(st, chClosedKey, ct), c)
	x.sc.assert(implies(reach, or(full, closed)))
	x.sc.note("channel receive: the goroutine continues only when a value is buffered or the channel is closed (blocking is not a return)")
	var v Val
	if x.so.sortOf(elemT) == "Int" {
		v = Val{T: elemT, S: x.name("rcv", "Int", ite(full, sel(x.chGet(st, chValKey, ct), c), "0"))}
	} else {
		v = Val{T: elemT, S: x.so.zero(elemT)}
	}
	ok := x.name("rcvok", "Bool", full)
	x.chSet(st, chFullKey, ct, c, "false")
	x.assumeAllocated(v) // a received reference refers to an object that exists now
	return v, ok
}

func (x *Exec) chanClose(cv Val, st *State, reach Term, pos token.Pos) {
	c, ct := cv.S, cv.T
	x.oblige("chan", "close-open", implies(reach, and(not(eq(c, "0")), not(sel(x.chGet(st, chClosedKey, ct), c)))), pos, "close of an open, non-nil channel (closing twice panics)")
	x.chSet(st, chClosedKey, ct, c, "true")
}

// chanSelect: a blocking select over receive cases picks one ready case (arbitrarily); a default case makes it
// non-blocking. Result tuple: (index, recvOk, received values of the receive cases in order).
func (x *Exec) chanSelect(fr *Frame, t *ssa.Select, st *State, reach Term) Val {
	x.selectAnchors(fr, t, st, reach)
	idx := x.sc.freshConst("sel", "Int")
	n := len(t.States)
	lo := "0"
	if !t.Blocking {
		lo = "(- 1)"
	}
	x.sc.assert(implies(reach, and(le(lo, idx), lt(idx, fmt.Sprint(n)))))
	rets := []Val{{T: tInt, S: idx}}
	okAll := x.sc.freshConst("selok", "Bool")
	rets = append(rets, Val{T: tBool, S: okAll})
	for i, sc := range t.States {
		c := x.val(fr, sc.Chan)
		chosen := eq(idx, fmt.Sprint(i))
		if sc.Dir == types.SendOnly {
			x.fail("select with a send case")
		}
		elemT := under(c.T).(*types.Chan).Elem()
		full := sel(x.chGet(st, chFullKey, c.T), c.S)
		closed := sel(x.chGet(st, chClosedKey, c.T), c.S)
		// the chosen case is ready
		x.sc.assert(implies(and(reach, chosen), or(full, closed)))
		x.sc.assert(implies(and(reach, chosen), eq(okAll, full)))
		if x.so.sortOf(elemT) == "Int" {
			rv := Val{T: elemT, S: x.name("selv", "Int", ite(and(chosen, full), sel(x.chGet(st, chValKey, c.T), c.S), "0"))}
			x.assumeAllocated(rv)
			rets = append(rets, rv)
		} else {
			rets = append(rets, Val{T: elemT, S: x.so.zero(elemT)})
		}
		// taking a buffered value empties the buffer
		x.chSet(st, chFullKey, c.T, c.S, ite(chosen, "false", full))
	}
	x.sc.note("select: one ready case is taken, arbitrarily; while no case is ready the goroutine is blocked (not a return)")
	return Val{T: t.Type(), Tup: rets}
}

// selectAnchors handles `assert e at select K` (checked right before the K-th select, i.e. before the
// goroutine may block).
func (x *Exec) selectAnchors(fr *Frame, t *ssa.Select, st *State, reach Term) {
	if !fr.isTop || x.fc == nil || x.curBlock == nil {
		return
	}
	k := 0
	for _, b := range fr.fn.Blocks {
		for _, in := range b.Instrs {
			if s, ok := in.(*ssa.Select); ok {
				k++
				if s == t {
					goto found
				}
			}
		}
	}
found:
	for i := range x.fc.Anchors {
		ac := &x.fc.Anchors[i]
		if ac.At != "select" || ac.K != k {
			continue
		}
		b, idx := x.curBlock, x.curIdx
		env := &Env{vars: map[string]Val{}, cur: st, old: x.old, pkg: fr.fn.Pkg.Pkg, fr: fr, at: b, x: x, freshLo: "allocBase0"}
		for n, v := range x.entryEnv.vars {
			env.vars[n] = v
		}
		env.lookup = func(name string) (Val, bool) { return x.lookupVar(fr, b, idx, name, env.cur) }
		tm, okc := x.trClause(labelOr(ac.Clause.Label, 0), ac.Clause.Text, ac.Clause.Expr, env, t.Pos())
		if !okc {
			continue
		}
		if ac.Kind == "assert" {
			x.oblige("order", fmt.Sprintf("%s@select#%d", labelOr(ac.Clause.Label, 0), ac.K), implies(reach, tm), t.Pos(), ac.Clause.Text)
		} else {
			x.sc.assert(implies(reach, tm))
			x.sc.note("ASSUMED at select %d: %s", ac.K, ac.Clause.Text)
		}
	}
}

// storedField names the struct field an ssa.Store writes ("T.f"), or "".
func storedField(t *ssa.Store) string {
	fa, ok := t.Addr.(*ssa.FieldAddr)
	if !ok {
		return ""
	}
	pt, ok := fa.X.Type().Underlying().(*types.Pointer)
	if !ok {
		return ""
	}
	st, ok := pt.Elem().Underlying().(*types.Struct)
	if !ok {
		return ""
	}
	name := "?"
	if nt, ok := pt.Elem().(*types.Named); ok {
		name = nt.Obj().Name()
	}
	return name + "." + st.Field(fa.Field).Name()
}

// storeAnchors handles `assert e at store T.f K`: checked right AFTER the K-th assignment (in source order) to
// field f of a T in this function.
func (x *Exec) storeAnchors(fr *Frame, t *ssa.Store, st *State, reach Term) {
	if !fr.isTop || x.fc == nil || x.curBlock == nil {
		return
	}
	fld := storedField(t)
	if fld == "" {
		return
	}
	for i := range x.fc.Anchors {
		ac := &x.fc.Anchors[i]
		if ac.At != "store" || ac.Callee != fld || x.storeTarget(fr.fn, ac) != t {
			continue
		}
		b, idx := x.curBlock, x.curIdx+1
		env := &Env{vars: map[string]Val{}, cur: st, old: x.old, pkg: fr.fn.Pkg.Pkg, fr: fr, at: b, x: x, freshLo: "allocBase0"}
		for n, v := range x.entryEnv.vars {
			env.vars[n] = v
		}
		env.lookup = func(name string) (Val, bool) { return x.lookupVar(fr, b, idx, name, env.cur) }
		tm, okc := x.trClause(labelOr(ac.Clause.Label, 0), ac.Clause.Text, ac.Clause.Expr, env, t.Pos())
		if !okc {
			continue
		}
		if ac.Kind == "assert" {
			x.oblige("order", fmt.Sprintf("%s@store:%s#%d", labelOr(ac.Clause.Label, 0), fld, ac.K), implies(reach, tm), t.Pos(), ac.Clause.Text)
		} else {
			x.sc.assert(implies(reach, tm))
			x.sc.note("ASSUMED at store %s: %s", fld, ac.Clause.Text)
		}
	}
}

func (x *Exec) storeTarget(fn *ssa.Function, ac *AnchorClause) *ssa.Store {
	var cands []*ssa.Store
	for _, b := range fn.Blocks {
		for _, in := range b.Instrs {
			if s, ok := in.(*ssa.Store); ok && storedField(s) == ac.Callee {
				cands = append(cands, s)
			}
		}
	}
	sort.SliceStable(cands, func(i, j int) bool { return cands[i].Pos() < cands[j].Pos() })
	if ac.K >= 1 && ac.K <= len(cands) {
		return cands[ac.K-1]
	}
	return nil
}
