package main

import (
	"encoding/json"
	"flag"
	"fmt"
	"go/types"
	"os"
	"path/filepath"
	"runtime"
	"sort"
	"strconv"
	"strings"
	"sync"
	"time"
)

// PropSpec is /verif/props/<id>.json: which verification units decide a property.
type PropSpec struct {
	ID        string   `json:"id"`
	Units     []string `json:"units"`      // function keys (own contract + refinement units)
	Lemmas    []string `json:"lemmas"`     // lemma names
	Decided   []string `json:"decided"`    // clauses decided by proof (text for evidence)
	Assumed   []string `json:"assumed"`    // clauses assumed
	Undecided []string `json:"undecided"`  // clauses this family cannot decide
	Standins  []Standin `json:"standins"`  // bounded stand-ins (thorough tier)
	Filter    string   `json:"filter"`     // "locks": count only lock-discipline obligations of the units
	Exclude   []string `json:"exclude"`    // obligations whose name contains one of these belong to another property
}

type Standin struct {
	Name  string `json:"name"`
	Cmd   string `json:"cmd"`
	Bound string `json:"bound"`
}

type knownFinding struct {
	Kind       string // finding | fixed
	Property   string
	Obligation string
	Text       string
}

func loadKnownFindings(path string) []knownFinding {
	b, err := os.ReadFile(path)
	if err != nil {
		return nil
	}
	var out []knownFinding
	for _, ln := range strings.Split(string(b), "\n") {
		ln = strings.TrimSpace(ln)
		if ln == "" || strings.HasPrefix(ln, "#") {
			continue
		}
		var kf knownFinding
		switch {
		case strings.HasPrefix(ln, "finding:"):
			kf.Kind = "finding"
			ln = strings.TrimSpace(strings.TrimPrefix(ln, "finding:"))
		case strings.HasPrefix(ln, "fixed:"):
			kf.Kind = "fixed"
			ln = strings.TrimSpace(strings.TrimPrefix(ln, "fixed:"))
		default:
			continue
		}
		for _, f := range strings.Fields(ln) {
			if strings.HasPrefix(f, "property=") {
				kf.Property = strings.TrimPrefix(f, "property=")
			} else if strings.HasPrefix(f, "obligation=") {
				kf.Obligation = strings.TrimPrefix(f, "obligation=")
			}
		}
		kf.Text = ln
		out = append(out, kf)
	}
	return out
}

type oblRecord struct {
	Name    string `json:"name"`
	Kind    string `json:"kind"`
	Verdict string `json:"verdict"`
	Solver  string `json:"solver"`
	Ms      int64  `json:"ms"`
	Pos     string `json:"pos,omitempty"`
	Clause  string `json:"clause,omitempty"`
}

type replayFile struct {
	Property   string `json:"property"`
	Obligation string `json:"obligation"`
	Function   string `json:"function"`
	Unit       string `json:"unit"`
	Kind       string `json:"kind"`
	Clause     string `json:"clause"`
	Pos        string `json:"pos"`
	Verdict    string `json:"verdict"`
	Solver     string `json:"solver"`
	Reason     string `json:"reason"`
	Output     string `json:"solver_output"`
	Model      string `json:"model,omitempty"`
	Script     string `json:"smt2,omitempty"`
	Replay     *replayResult `json:"replay,omitempty"`
	HowTo      string `json:"how_to_replay"`
}

type replayResult struct {
	Confirmed bool   `json:"confirmed"`
	Method    string `json:"method"`
	Input     string `json:"input,omitempty"`
	Output    string `json:"output,omitempty"`
	TestFile  string `json:"test_file,omitempty"`
}

func runCheck(args []string) int {
	fs := flag.NewFlagSet("check", flag.ExitOnError)
	repo := fs.String("repo", "/repo", "repository working tree")
	verif := fs.String("verif", "/verif", "verif directory")
	tier := fs.String("tier", "quick", "quick|thorough")
	replay := fs.String("replay", "", "replay file to re-check")
	noEvidence := fs.Bool("no-evidence", false, "do not write evidence (used by the mutant runner)")
	replaysRoot := fs.String("replays", "", "directory for replay files (default <verif>/replays)")
	fs.Parse(args)
	if t := os.Getenv("VERIF_TIER"); t == "quick" || t == "thorough" {
		if !flagSet(fs, "tier") {
			*tier = t
		}
	}
	seed := 0
	if s := os.Getenv("VERIF_SEED"); s != "" {
		seed, _ = strconv.Atoi(s)
	}
	if *replay != "" {
		return runReplay(*repo, *verif, *replay)
	}
	if fs.NArg() < 1 {
		fmt.Fprintln(os.Stderr, "usage: govc check [-tier quick|thorough] <property>")
		return 2
	}
	prop := fs.Arg(0)
	t0 := time.Now()
	var spec PropSpec
	b, err := os.ReadFile(filepath.Join(*verif, "props", prop+".json"))
	if err != nil {
		fmt.Fprintln(os.Stderr, "no property spec:", err)
		return 2
	}
	if err := json.Unmarshal(b, &spec); err != nil {
		fmt.Fprintln(os.Stderr, "bad property spec:", err)
		return 2
	}
	p, err := loadProgram(*repo)
	if err != nil {
		fmt.Fprintln(os.Stderr, "cannot load /repo (does it compile?):", err)
		return 2
	}
	eng, err := newEngine(p, filepath.Join(*verif, "trusted"))
	if err != nil {
		fmt.Fprintln(os.Stderr, "contract error:", err)
		return 2
	}
	known := loadKnownFindings(filepath.Join(*verif, "KNOWN_FINDINGS.txt"))

	type unitRes struct {
		u      unit
		res    *FuncResult
		filter string // per-unit filter ("unit|prefixes" in the property spec)
	}
	var results []unitRes
	for _, k := range spec.Units {
		uf := ""
		if i := strings.Index(k, "|"); i >= 0 {
			k, uf = k[:i], k[i+1:]
		}
		for _, u := range eng.unitsFor(k) {
			results = append(results, unitRes{u, eng.verifyUnit(u), uf})
		}
	}
	for _, ln := range spec.Lemmas {
		results = append(results, unitRes{unit{key: "lemma:" + ln}, eng.verifyLemma(ln), ""})
	}
	// discharge everything in one pool
	var wg sync.WaitGroup
	sem := make(chan struct{}, solverWorkers())
	for _, r := range results {
		if r.res.Script == nil {
			continue
		}
		if len(spec.Exclude) > 0 && r.res.Script != nil {
			var keep []*Obligation
			for _, o := range r.res.Script.obls {
				drop := false
				for _, ex := range spec.Exclude {
					if strings.Contains(o.Name, ex) {
						drop = true
					}
				}
				if !drop {
					keep = append(keep, o)
				}
			}
			r.res.Script.obls = keep
		}
		thin := false
		for _, f := range r.res.Flags {
			if strings.HasPrefix(f, "only_") || f == "lockonly" {
				thin = true
			}
		}
		// the filter selects the clauses of THIN units that belong to this property; a full unit listed
		// under a filtered property contributes all its obligations
		filter := spec.Filter
		if r.filter != "" {
			filter, thin = r.filter, true
		}
		if filter != "" && r.res.Script != nil && (thin || filter == "locks") {
			var keep []*Obligation
			for _, o := range r.res.Script.obls {
				for _, f := range strings.Split(filter, ",") {
					// a clause that no longer binds to the code (kind bind) is reported under every property that uses the unit
					if o.Kind == "bind" || (f == "locks" && o.Kind == "lock") || (f == "frame" && o.Kind == "frame") || strings.HasPrefix(o.Label, f) || (o.Cover && o.Label == "pre") ||
						strings.Contains(o.Label, ":"+f) { // inv-init "L1:<label>", hint "return2:<label>", pre@ "callee:<label>#k"
						keep = append(keep, o)
						break
					}
				}
			}
			r.res.Script.obls = keep
		}
		for _, o := range r.res.Script.obls {
			for _, kf := range known {
				if kf.Kind == "finding" && kf.Property == prop && kf.Obligation == o.Name {
					o.KnownFinding = true
				}
			}
			wg.Add(1)
			sem <- struct{}{}
			go func(sc *Script, o *Obligation) {
				defer wg.Done()
				defer func() { <-sem }()
				discharge(sc, o, *tier)
			}(r.res.Script, o)
		}
	}
	wg.Wait()

	// collect
	var recs []oblRecord
	var funcs []string
	trusted := map[string]bool{}
	notes := map[string]bool{}
	var solverMs int64
	nObl, nOK, nCover, nCoverOK := 0, 0, 0, 0
	violations := 0
	knownHit := 0
	bySolver := map[string]int{}
	replayDir := filepath.Join(*verif, "replays", prop)
	if *replaysRoot != "" {
		replayDir = filepath.Join(*replaysRoot, prop)
	}
	var out []string
	report := func(name, unitName, fn, kind, clause, pos, verdict, solver, reason, output, model, script string) {
		for _, kf := range known {
			if kf.Kind == "finding" && kf.Property == prop && kf.Obligation == name {
				out = append(out, fmt.Sprintf("KNOWN-FINDING: property=%s %s", prop, strings.TrimSpace(strings.Replace(strings.Replace(kf.Text, "property="+prop, "", 1), "  ", " ", -1))))
				knownHit++
				return
			}
		}
		violations++
		os.MkdirAll(replayDir, 0755)
		rf := replayFile{Property: prop, Obligation: name, Function: fn, Unit: unitName, Kind: kind, Clause: clause, Pos: pos, Verdict: verdict, Solver: solver,
			Reason: reason, Output: truncate(output, 20000), Model: truncate(model, 100000), Script: script,
			HowTo: fmt.Sprintf("cd /verif && ./check --replay %s", filepath.Join(replayDir, fileSafe(name)+".json"))}
		suffix := " no-failing-input-found"
		if rr := tryReplay(eng, *repo, *verif, &rf); rr != nil {
			rf.Replay = rr
			if rr.Confirmed {
				suffix = ""
			}
		}
		path := filepath.Join(replayDir, fileSafe(name)+".json")
		jb, _ := json.MarshalIndent(rf, "", " ")
		os.WriteFile(path, jb, 0644)
		out = append(out, fmt.Sprintf("VIOLATION property=%s replay=%s obligation=%s verdict=%s%s", prop, path, name, verdict, suffix))
	}
	for _, r := range results {
		uname := r.u.key
		if r.u.prefix != "" {
			uname += "/" + r.u.prefix
		}
		funcs = append(funcs, uname)
		if r.res.Err != "" {
			report(uname+"/engine", uname, r.u.key, "engine", "", "", "error", "", r.res.Err, r.res.Err, "", "")
			continue
		}
		for _, t := range r.res.Trusted {
			trusted[t] = true
		}
		for _, n := range r.res.Notes {
			notes[uname+": "+n] = true
		}
		for _, f := range r.res.Flags {
			if f == "assumed" {
				notes[uname+": contract assumed, body not verified"] = true
			}
		}
		for _, c := range r.res.Callees {
			if strings.HasPrefix(c, "inlined:") {
				continue
			}
			if fc := eng.cs.Funcs[c]; fc != nil && (fc.Flags["assumed"] || fc.Kind == "trusted") {
				trusted["assumed contract: "+c] = true
			}
		}
		for _, o := range r.res.Script.obls {
			solverMs += o.Millis
			if o.Cover {
				nCover++
				if o.ok() {
					nCoverOK++
				} else {
					report(o.Name, uname, r.u.key, o.Kind, o.Text, o.Pos, "vacuous", o.Solver, "vacuity guard failed: assumptions are contradictory here", o.Output, "", r.res.Script.text(o, false))
				}
				continue
			}
			nObl++
			recs = append(recs, oblRecord{Name: o.Name, Kind: o.Kind, Verdict: o.Verdict, Solver: o.Solver, Ms: o.Millis, Pos: o.Pos, Clause: o.Text})
			if o.ok() {
				nOK++
				bySolver[o.Solver]++
				continue
			}
			reason := "obligation not discharged (" + o.Verdict + ")"
			if o.Verdict == "sat" {
				reason = "solver found a counterexample"
			}
			report(o.Name, uname, r.u.key, o.Kind, o.Text, o.Pos, o.Verdict, o.Solver, reason, o.Output, o.Model, r.res.Script.text(o, true))
		}
	}
	sort.Strings(out)
	for _, l := range out {
		fmt.Println(l)
	}
	wall := time.Since(t0).Seconds()
	fmt.Printf("property %s tier %s: %d obligations, %d discharged, %d known findings, %d violations, %d/%d covers, %d units, %.1fs\n",
		prop, *tier, nObl, nOK, knownHit, violations, nCoverOK, nCover, len(results), wall)

	if !*noEvidence {
		writeEvidence(*verif, prop, *tier, seed, &spec, recs, funcs, trusted, notes, nObl, nOK, nCover, nCoverOK, knownHit, violations, bySolver, solverMs, wall)
	}
	if violations > 0 {
		return 1
	}
	return 0
}

func flagSet(fs *flag.FlagSet, name string) bool {
	found := false
	fs.Visit(func(f *flag.Flag) {
		if f.Name == name {
			found = true
		}
	})
	return found
}

func truncate(s string, n int) string {
	if len(s) > n {
		return s[:n] + "\n...[truncated]"
	}
	return s
}

func fileSafe(s string) string {
	return strings.NewReplacer("/", "__", "*", "", "(", "", ")", "", ":", "-", "#", "_", " ", "_", "@", "_at_", "$", "_").Replace(s)
}

func writeEvidence(verif, prop, tier string, seed int, spec *PropSpec, recs []oblRecord, funcs []string, trusted, notes map[string]bool,
	nObl, nOK, nCover, nCoverOK, knownHit, violations int, bySolver map[string]int, solverMs int64, wall float64) {
	var tb []string
	for t := range trusted {
		tb = append(tb, t)
	}
	sort.Strings(tb)
	tb = append(tb, "go/packages + go/types + go/ssa (x/tools v0.50.0): the SSA means what the compiler compiles",
		"the VC generator /verif/engine (its only check is the must-fail corpus /verif/mutants and the seeded changes /verif/seeded; models are NOT replayed on the real code)",
		"SMT solvers z3 5.1.0, cvc5 1.0.3, z3 4.8.12 (cross-checked in the thorough tier)")
	var asm []string
	for n := range notes {
		asm = append(asm, n)
	}
	sort.Strings(asm)
	asm = append(asm, "sequential semantics: goroutine interleavings and the memory model are not modelled (sync.* are no-ops outside lock-discipline units; atomics are plain fields)",
		"machine integers are mathematical integers with per-type range assumptions; overflow obligations only in functions flagged `overflow`",
		"nil-dereference freedom is assumed except in functions flagged `nilcheck`",
		"package-level variables of /repo are immutable after init (checked syntactically on every run)")
	for _, a := range spec.Assumed {
		asm = append(asm, "assumed clause: "+a)
	}
	for _, a := range spec.Undecided {
		asm = append(asm, "NOT decided by this check: "+a)
	}
	// the sample keeps every obligation that was not discharged and the slowest discharged ones
	samples := append([]oblRecord{}, recs...)
	sort.SliceStable(samples, func(i, j int) bool {
		bi, bj := samples[i].Verdict != "unsat" && samples[i].Kind != "cover", samples[j].Verdict != "unsat" && samples[j].Kind != "cover"
		if bi != bj {
			return bi
		}
		return samples[i].Ms > samples[j].Ms
	})
	if len(samples) > 400 {
		samples = samples[:400]
	}
	discharged := nOK
	nObl -= knownHit // listed known findings are not claimed; they are reported under known_findings
	ev := map[string]any{
		"property_id": prop,
		"tier":        tier,
		"seed":        seed,
		"level":       "proof",
		"coverage": map[string]any{
			"obligations":              nObl,
			"discharged":               discharged,
			"discharged_by_solver":     nOK,
			"known_findings":           knownHit,
			"checker_cmd":              fmt.Sprintf("/verif/bin/govc check -tier %s %s", tier, prop),
			"trusted_base":             tb,
			"functions_under_contract": funcs,
			"samples":                  samples,
			"solver_time_s":            float64(solverMs) / 1000.0,
			"discharged_by_backend":    bySolver,
			"covers":                   nCover,
			"covers_sat_or_unknown":    nCoverOK,
			"decided_clauses":          spec.Decided,
			"explanation":              "obligations are weakest-precondition style VCs generated from go/ssa of /repo's working tree against the contracts in the verif-tagged comment files; `obligations` counts the claimed obligations (listed known findings are excluded and reported under known_findings), `discharged` those proved unsat by a solver",
		},
		"assumptions": asm,
		"wall_s":      wall,
		"violations":  violations,
	}
	os.MkdirAll(filepath.Join(verif, "evidence"), 0755)
	jb, _ := json.MarshalIndent(ev, "", " ")
	os.WriteFile(filepath.Join(verif, "evidence", prop+".json"), jb, 0644)
}

func runReplay(repo, verif, path string) int {
	b, err := os.ReadFile(path)
	if err != nil {
		fmt.Fprintln(os.Stderr, err)
		return 2
	}
	var rf replayFile
	if err := json.Unmarshal(b, &rf); err != nil {
		fmt.Fprintln(os.Stderr, err)
		return 2
	}
	p, err := loadProgram(repo)
	if err != nil {
		fmt.Fprintln(os.Stderr, err)
		return 2
	}
	eng, err := newEngine(p, filepath.Join(verif, "trusted"))
	if err != nil {
		fmt.Fprintln(os.Stderr, err)
		return 2
	}
	fmt.Printf("replaying obligation %s (property %s)\n  clause: %s\n  at: %s\n", rf.Obligation, rf.Property, rf.Clause, rf.Pos)
	key := rf.Function
	found := false
	for _, u := range eng.unitsFor(key) {
		res := eng.verifyUnit(u)
		if res.Err != "" {
			fmt.Println("  engine:", res.Err)
			if strings.HasSuffix(rf.Obligation, "/engine") {
				fmt.Printf("VIOLATION property=%s replay=%s\n", rf.Property, path)
				return 1
			}
			continue
		}
		for _, o := range res.Script.obls {
			if o.Name == rf.Obligation {
				found = true
				discharge(res.Script, o, "thorough")
				fmt.Printf("  verdict now: %s (%s, %dms)\n", o.Verdict, o.Solver, o.Millis)
				if !o.ok() {
					if rf.Replay != nil && rf.Replay.TestFile != "" {
						fmt.Printf("  concrete replay: %s\n", rf.Replay.TestFile)
					}
					fmt.Printf("VIOLATION property=%s replay=%s\n", rf.Property, path)
					return 1
				}
			}
		}
	}
	if !found {
		fmt.Println("  obligation no longer generated on this tree")
		return 2
	}
	fmt.Println("  obligation discharged on the current tree")
	return 0
}

// verifyLemma proves a pure lemma: requires ==> ensures, with spec axioms.
func (e *Engine) verifyLemma(name string) (res *FuncResult) {
	res = &FuncResult{Key: "lemma:" + name}
	var lm *LemmaDecl
	for i := range e.cs.Lemmas {
		if e.cs.Lemmas[i].Name == name {
			lm = &e.cs.Lemmas[i]
		}
	}
	if lm == nil {
		res.Err = "contract-binding: lemma " + name + " not found"
		return
	}
	x := e.newExec("lemma:"+name, nil, nil)
	res.Script = x.sc
	defer func() {
		if r := recover(); r != nil {
			if u, ok := r.(unsupported); ok {
				res.Err = "engine: " + u.msg
				return
			}
			panic(r)
		}
	}()
	pk := e.pkgByShort(lm.Pkg)
	env := &Env{vars: map[string]Val{}, cur: x.old, old: x.old, pkg: pk, x: x, freshLo: "allocBase0"}
	for _, p := range lm.Params {
		t := e.resolveType(pk, p.Type)
		if _, isMap := under(t).(*types.Map); isMap && strings.HasPrefix(p.Type, "map[int]") {
			// ghost (total) map parameter, e.g. the bytes of a file
			c := x.sc.declConst("p_"+sanitize(p.Name), x.ghostSort(t))
			env.vars[p.Name] = Val{T: t, S: c, GM: e.ghostMapInfoOfType(x, t)}
			continue
		}
		env.vars[p.Name] = x.symParam(p.Name, t, false)
	}
	for _, rq := range lm.Requires {
		x.sc.assert(x.trBool(rq.Expr, env))
	}
	x.cover("pre", "true", 0, "lemma hypotheses satisfiable")
	for i, en := range lm.Ensures {
		x.oblige("lemma", labelOr(en.Label, i), x.trBool(en.Expr, env), 0, en.Text)
	}
	return
}

// solverWorkers: obligations discharged concurrently (each may run up to three solver processes in the race).
// GOVC_WORKERS bounds it when several checks share the machine (mutants/run.sh, tools/seedall.py).
func solverWorkers() int {
	n := runtime.NumCPU()
	if s := os.Getenv("GOVC_WORKERS"); s != "" {
		if k, err := strconv.Atoi(s); err == nil && k >= 1 {
			n = k
		}
	}
	return n
}
