package main

import (
	"fmt"
	"strconv"
	"strings"
)

// ---------------- contract AST ----------------

type CExpr interface{ cstr() string }

type (
	CIdent struct{ Name string }
	CInt   struct{ Val string }
	CBool  struct{ Val bool }
	CNil   struct{}
	CStr   struct{ Val string }
	CBin   struct {
		Op   string
		L, R CExpr
	}
	CUn struct {
		Op string
		X  CExpr
	}
	CSel struct {
		X    CExpr
		Name string
	}
	CIdx   struct{ X, I CExpr }
	CSlice struct{ X, Lo, Hi CExpr }
	CUpd   struct{ X, I, V CExpr }
	CCall  struct {
		Fun  CExpr
		Args []CExpr
	}
	CQuant struct {
		Forall bool
		Vars   []CVar
		Body   CExpr
	}
	COld        struct{ X CExpr }
	CTypeAssert struct {
		X    CExpr
		Type string
	}
	CTypeIs struct { // typeis(x, T)
		X    CExpr
		Type string
	}
)

type CVar struct {
	Name string
	Type string // Go type text, "" = int
}

func (e *CIdent) cstr() string { return e.Name }
func (e *CInt) cstr() string   { return e.Val }
func (e *CBool) cstr() string  { return fmt.Sprint(e.Val) }
func (e *CNil) cstr() string   { return "nil" }
func (e *CStr) cstr() string   { return strconv.Quote(e.Val) }
func (e *CBin) cstr() string   { return "(" + e.L.cstr() + " " + e.Op + " " + e.R.cstr() + ")" }
func (e *CUn) cstr() string    { return e.Op + e.X.cstr() }
func (e *CSel) cstr() string   { return e.X.cstr() + "." + e.Name }
func (e *CIdx) cstr() string   { return e.X.cstr() + "[" + e.I.cstr() + "]" }
func (e *CSlice) cstr() string {
	lo, hi := "", ""
	if e.Lo != nil {
		lo = e.Lo.cstr()
	}
	if e.Hi != nil {
		hi = e.Hi.cstr()
	}
	return e.X.cstr() + "[" + lo + ":" + hi + "]"
}
func (e *CUpd) cstr() string { return e.X.cstr() + "[" + e.I.cstr() + " := " + e.V.cstr() + "]" }
func (e *CCall) cstr() string {
	var as []string
	for _, a := range e.Args {
		as = append(as, a.cstr())
	}
	return e.Fun.cstr() + "(" + strings.Join(as, ", ") + ")"
}
func (e *CQuant) cstr() string {
	q := "exists"
	if e.Forall {
		q = "forall"
	}
	var vs []string
	for _, v := range e.Vars {
		vs = append(vs, strings.TrimSpace(v.Name+" "+v.Type))
	}
	return "(" + q + " " + strings.Join(vs, ", ") + " :: " + e.Body.cstr() + ")"
}
func (e *COld) cstr() string        { return "old(" + e.X.cstr() + ")" }
func (e *CTypeAssert) cstr() string { return e.X.cstr() + ".(" + e.Type + ")" }
func (e *CTypeIs) cstr() string     { return "typeis(" + e.X.cstr() + ", " + e.Type + ")" }

type Clause struct {
	Label string
	Expr  CExpr
	Text  string
	Line  int
}

type LoopContract struct {
	N          int
	Invariants []Clause
	Decreases  CExpr
	DecText    string
	Modifies   []CExpr
}

type AnchorClause struct {
	Kind   string // assert | assume
	Clause Clause
	At     string // "call <name> [k]" | "return k" | "loop k head"
	Callee string
	K      int
}

// ImplClause: this function is the value of a func-typed field (or the method behind an interface) whenever
// When holds; at every return the target contract's ensures are proved under When (obligations impl:<label>).
type ImplClause struct {
	Target string
	When   Clause
}

type FuncContract struct {
	Kind     string // func | iface | field | trusted
	Key      string // klevdb.(*log).Consume ; for iface: klevdb.indexer.Consume ; field: message.Reader.reader
	Pkg      string // short package the block was declared in
	Params   []string // explicit parameter names (trusted/field/iface), optional
	Results  []string
	Requires []Clause
	Ensures  []Clause
	Assigns  []CExpr
	HasAssigns bool
	Loops    map[int]*LoopContract
	Anchors  []AnchorClause
	Flags    map[string]bool // overflow, nilcheck, assumed, pure, inline, noframe
	Def      CExpr           // for pure functions: result == Def
	Refines  []string
	Implements []ImplClause // `implements <field/iface contract> when <cond>`: the target's ensures are extra postconditions here
	Cases    []Clause // case split: the function is verified once per case, with the case as an extra precondition
	File     string
	Line     int
}

type PredDecl struct {
	Name   string
	Pkg    string
	Params []CVar
	Body   CExpr
}

type SpecDecl struct { // uninterpreted spec function
	Name    string
	Pkg     string
	Params  []CVar
	Result  string
	Axioms  []Clause // quantified over the parameters; may use result
}

type GhostField struct {
	Pkg, Type, Name, GoType string
}
type GhostVar struct {
	Pkg, Name, GoType string
	Counter           bool // bookkeeping counter: exempt from frame obligations (only contracts update it)
}
type AxiomDecl struct {
	Pkg, Name string
	Expr      CExpr
	Text      string
}
type LemmaDecl struct {
	Pkg, Name string
	Params    []CVar
	Requires  []Clause
	Ensures   []Clause
	Line      int
}
type GuardedBy struct {
	WritesOnly       bool // reads are atomic and need no lock
	Pkg, Type, Field string
	Lock             string // field name of the lock in the same struct
}

type ContractSet struct {
	Funcs   map[string]*FuncContract
	Preds   map[string]*PredDecl
	Specs   map[string]*SpecDecl
	GFields []GhostField
	GVars   map[string]*GhostVar
	Axioms  []AxiomDecl
	Lemmas  []LemmaDecl
	Guards  []GuardedBy
}

func newContractSet() *ContractSet {
	return &ContractSet{Funcs: map[string]*FuncContract{}, Preds: map[string]*PredDecl{}, Specs: map[string]*SpecDecl{}, GVars: map[string]*GhostVar{}}
}

// ---------------- lexer ----------------

type tok struct {
	kind string // id int str op eof
	text string
	line int
	pos  int // byte offset in source
	spaceBefore bool
}

type lexer struct {
	src  string
	toks []tok
}

var ops3 = []string{"<==>", "==>", ":=", "::", "&&", "||", "==", "!=", "<=", ">=", "<<", ">>", "&^"}

func lex(src string, baseLine int) ([]tok, error) {
	var toks []tok
	line := baseLine
	i := 0
	space := false
	for i < len(src) {
		c := src[i]
		switch {
		case c == '\n':
			line++
			i++
			space = true
		case c == ' ' || c == '\t' || c == '\r':
			i++
			space = true
		case c == '/' && i+1 < len(src) && src[i+1] == '/':
			for i < len(src) && src[i] != '\n' {
				i++
			}
		case isIdStart(c):
			j := i
			for j < len(src) && isIdPart(src[j]) {
				j++
			}
			toks = append(toks, tok{"id", src[i:j], line, i, space})
			i = j
			space = false
		case c >= '0' && c <= '9':
			j := i
			for j < len(src) && (isIdPart(src[j])) {
				j++
			}
			toks = append(toks, tok{"int", src[i:j], line, i, space})
			i = j
			space = false
		case c == '"':
			j := i + 1
			for j < len(src) && src[j] != '"' {
				if src[j] == '\\' {
					j++
				}
				j++
			}
			s, err := strconv.Unquote(src[i : j+1])
			if err != nil {
				return nil, fmt.Errorf("line %d: bad string", line)
			}
			toks = append(toks, tok{"str", s, line, i, space})
			i = j + 1
			space = false
		case c == '\'':
			j := i + 1
			for j < len(src) && src[j] != '\'' {
				if src[j] == '\\' {
					j++
				}
				j++
			}
			r, _, _, err := strconv.UnquoteChar(src[i+1:j], '\'')
			if err != nil {
				return nil, fmt.Errorf("line %d: bad char", line)
			}
			toks = append(toks, tok{"int", strconv.Itoa(int(r)), line, i, space})
			i = j + 1
			space = false
		default:
			matched := false
			for _, op := range ops3 {
				if strings.HasPrefix(src[i:], op) {
					toks = append(toks, tok{"op", op, line, i, space})
					i += len(op)
					matched = true
					break
				}
			}
			if !matched {
				toks = append(toks, tok{"op", string(c), line, i, space})
				i++
			}
			space = false
		}
	}
	toks = append(toks, tok{"eof", "", line, len(src), true})
	return toks, nil
}

func isIdStart(c byte) bool { return c == '_' || (c >= 'a' && c <= 'z') || (c >= 'A' && c <= 'Z') }
func isIdPart(c byte) bool  { return isIdStart(c) || (c >= '0' && c <= '9') }

// ---------------- parser ----------------

type parser struct {
	src  string
	toks []tok
	p    int
	pkg  string
	file string
}

var clauseKW = map[string]bool{
	"requires": true, "ensures": true, "assigns": true, "loop": true, "invariant": true, "decreases": true,
	"func": true, "pred": true, "ghost": true, "spec": true, "lemma": true, "iface": true, "field": true,
	"guarded_by": true, "axiom": true, "trusted": true, "flags": true, "refines": true, "implements": true, "when": true, "def": true,
	"modifies": true, "assert": true, "assume": true, "at": true, "package": true, "split": true,
}

func (p *parser) peek() tok { return p.toks[p.p] }
func (p *parser) next() tok {
	t := p.toks[p.p]
	if t.kind != "eof" {
		p.p++
	}
	return t
}
func (p *parser) isOp(s string) bool { t := p.peek(); return t.kind == "op" && t.text == s }
func (p *parser) isKW(s string) bool { t := p.peek(); return t.kind == "id" && t.text == s }
func (p *parser) expectOp(s string) error {
	if !p.isOp(s) {
		return p.errf("expected %q, got %q", s, p.peek().text)
	}
	p.next()
	return nil
}
func (p *parser) errf(format string, a ...any) error {
	return fmt.Errorf("%s:%d: %s", p.file, p.peek().line, fmt.Sprintf(format, a...))
}

func parseContracts(cs *ContractSet, pkgShort, file string, baseLine int, src string) error {
	toks, err := lex(src, baseLine)
	if err != nil {
		return fmt.Errorf("%s: %v", file, err)
	}
	p := &parser{src: src, toks: toks, pkg: pkgShort, file: file}
	for p.peek().kind != "eof" {
		if err := p.parseDecl(cs); err != nil {
			return err
		}
	}
	return nil
}

func (p *parser) ident() (string, error) {
	t := p.next()
	if t.kind != "id" {
		return "", fmt.Errorf("%s:%d: expected identifier, got %q", p.file, t.line, t.text)
	}
	return t.text, nil
}

// parseFuncName parses  Name | (T).Name | (*T).Name | pkg.Name | pkg.(T).Name
func (p *parser) parseFuncName() (string, error) {
	pkg := p.pkg
	var recv string
	if p.peek().kind == "id" && p.toks[p.p+1].kind == "op" && p.toks[p.p+1].text == "." &&
		(p.toks[p.p+2].kind == "id" || p.toks[p.p+2].text == "(") {
		// pkg.Name or pkg.(T).Name -- but could be Type.Method for iface/field; caller handles
		pkg = p.next().text
		p.next()
	}
	if p.isOp("(") {
		p.next()
		if p.isOp("*") {
			p.next()
			recv = "*"
		}
		n, err := p.ident()
		if err != nil {
			return "", err
		}
		recv += n
		if err := p.expectOp(")"); err != nil {
			return "", err
		}
		if err := p.expectOp("."); err != nil {
			return "", err
		}
	}
	name, err := p.ident()
	if err != nil {
		return "", err
	}
	// closures: Name$1
	for p.isOp("$") {
		p.next()
		t := p.next()
		name += "$" + t.text
	}
	if recv != "" {
		return fmt.Sprintf("%s.(%s).%s", pkg, recv, name), nil
	}
	return pkg + "." + name, nil
}

func (p *parser) parseDecl(cs *ContractSet) error {
	t := p.next()
	if t.kind != "id" {
		return fmt.Errorf("%s:%d: expected declaration keyword, got %q", p.file, t.line, t.text)
	}
	switch t.text {
	case "package":
		n, err := p.ident()
		if err != nil {
			return err
		}
		p.pkg = n
		return nil
	case "pred":
		name, err := p.ident()
		if err != nil {
			return err
		}
		params, err := p.parseParams()
		if err != nil {
			return err
		}
		if err := p.expectOp(":="); err != nil {
			return err
		}
		body, err := p.parseExpr()
		if err != nil {
			return err
		}
		if old, dup := cs.Preds[name]; dup && (old.Body.cstr() != body.cstr() || len(old.Params) != len(params)) {
			return fmt.Errorf("%s: predicate %s is already declared differently (package %s): predicate names are global", p.file, name, old.Pkg)
		}
		cs.Preds[name] = &PredDecl{Name: name, Pkg: p.pkg, Params: params, Body: body}
		return nil
	case "spec":
		name, err := p.ident()
		if err != nil {
			return err
		}
		params, err := p.parseParams()
		if err != nil {
			return err
		}
		rt, err := p.parseType()
		if err != nil {
			return err
		}
		sd := &SpecDecl{Name: name, Pkg: p.pkg, Params: params, Result: rt}
		for p.isKW("ensures") || p.isKW("axiom") {
			p.next()
			cl, err := p.parseClause()
			if err != nil {
				return err
			}
			sd.Axioms = append(sd.Axioms, cl)
		}
		if old, dup := cs.Specs[name]; dup && len(old.Params) != len(sd.Params) {
			return fmt.Errorf("%s: spec function %s is already declared differently: spec names are global", p.file, name)
		}
		cs.Specs[name] = sd
		return nil
	case "axiom":
		name, err := p.ident()
		if err != nil {
			return err
		}
		if err := p.expectOp(":="); err != nil {
			return err
		}
		start := p.peek().pos
		e, err := p.parseExpr()
		if err != nil {
			return err
		}
		cs.Axioms = append(cs.Axioms, AxiomDecl{Pkg: p.pkg, Name: name, Expr: e, Text: strings.Join(strings.Fields(stripComments(p.src[start:p.peek().pos])), " ")})
		return nil
	case "ghost":
		kind, err := p.ident()
		if err != nil {
			return err
		}
		switch kind {
		case "field":
			tn, err := p.ident()
			if err != nil {
				return err
			}
			if err := p.expectOp("."); err != nil {
				return err
			}
			fn, err := p.ident()
			if err != nil {
				return err
			}
			ty, err := p.parseType()
			if err != nil {
				return err
			}
			cs.GFields = append(cs.GFields, GhostField{Pkg: p.pkg, Type: tn, Name: fn, GoType: ty})
		case "var", "counter":
			n, err := p.ident()
			if err != nil {
				return err
			}
			ty, err := p.parseType()
			if err != nil {
				return err
			}
			cs.GVars[n] = &GhostVar{Pkg: p.pkg, Name: n, GoType: ty, Counter: kind == "counter"}
		default:
			return p.errf("ghost field|var|counter expected")
		}
		return nil
	case "guarded_by":
		tn, err := p.ident()
		if err != nil {
			return err
		}
		if err := p.expectOp("."); err != nil {
			return err
		}
		fn, err := p.ident()
		if err != nil {
			return err
		}
		lk, err := p.ident()
		if err != nil {
			return err
		}
		g := GuardedBy{Pkg: p.pkg, Type: tn, Field: fn, Lock: lk}
		if p.isKW("writes") {
			p.next()
			g.WritesOnly = true
		}
		cs.Guards = append(cs.Guards, g)
		return nil
	case "lemma":
		name, err := p.ident()
		if err != nil {
			return err
		}
		params, err := p.parseParams()
		if err != nil {
			return err
		}
		lm := LemmaDecl{Pkg: p.pkg, Name: name, Params: params, Line: t.line}
		for p.isKW("requires") || p.isKW("ensures") {
			kw := p.next().text
			cl, err := p.parseClause()
			if err != nil {
				return err
			}
			if kw == "requires" {
				lm.Requires = append(lm.Requires, cl)
			} else {
				lm.Ensures = append(lm.Ensures, cl)
			}
		}
		cs.Lemmas = append(cs.Lemmas, lm)
		return nil
	case "func", "iface", "field", "trusted":
		fc := &FuncContract{Kind: t.text, Pkg: p.pkg, Loops: map[int]*LoopContract{}, Flags: map[string]bool{}, File: p.file, Line: t.line}
		switch t.text {
		case "func":
			k, err := p.parseFuncName()
			if err != nil {
				return err
			}
			fc.Key = k
			// `func F alt <name>`: an additional contract of the same body (own unit F#<name>, never used at call sites)
			if tk := p.peek(); tk.kind == "id" && tk.text == "alt" {
				p.next()
				n, err := p.ident()
				if err != nil {
					return err
				}
				fc.Key = k + "#" + n
			}
		case "iface", "field":
			// [pkg.]Type.Member
			a, err := p.ident()
			if err != nil {
				return err
			}
			parts := []string{a}
			for p.isOp(".") {
				p.next()
				b, err := p.ident()
				if err != nil {
					return err
				}
				parts = append(parts, b)
			}
			if len(parts) <= 2 {
				parts = append([]string{p.pkg}, parts...)
			}
			fc.Key = strings.Join(parts, ".")
		case "trusted":
			// full name up to '(' e.g. os.Rename or (*os.File).Sync
			var sb strings.Builder
			depth := 0
			for {
				tk := p.peek()
				if tk.kind == "eof" {
					break
				}
				if tk.kind == "op" && tk.text == "(" && depth == 0 && sb.Len() > 0 && !strings.HasSuffix(sb.String(), ".") {
					break
				}
				if tk.kind == "id" && clauseKW[tk.text] && sb.Len() > 0 {
					break
				}
				if tk.text == "(" {
					depth++
				}
				if tk.text == ")" {
					depth--
				}
				sb.WriteString(tk.text)
				p.next()
			}
			fc.Key = sb.String()
		}
		// optional explicit parameter / result names
		if p.isOp("(") && !p.peek().spaceBefore || (t.text != "func" && p.isOp("(")) {
			p.next()
			for !p.isOp(")") {
				n, err := p.ident()
				if err != nil {
					return err
				}
				fc.Params = append(fc.Params, n)
				if p.isOp(",") {
					p.next()
				}
			}
			p.next()
			if p.isOp("(") {
				p.next()
				for !p.isOp(")") {
					n, err := p.ident()
					if err != nil {
						return err
					}
					fc.Results = append(fc.Results, n)
					if p.isOp(",") {
						p.next()
					}
				}
				p.next()
			}
		}
		if err := p.parseFuncClauses(fc); err != nil {
			return err
		}
		if _, dup := cs.Funcs[fc.Key]; dup {
			return fmt.Errorf("%s:%d: duplicate contract for %s", p.file, t.line, fc.Key)
		}
		cs.Funcs[fc.Key] = fc
		return nil
	}
	return fmt.Errorf("%s:%d: unknown declaration %q", p.file, t.line, t.text)
}

func (p *parser) parseParams() ([]CVar, error) {
	if err := p.expectOp("("); err != nil {
		return nil, err
	}
	var out []CVar
	for !p.isOp(")") {
		n, err := p.ident()
		if err != nil {
			return nil, err
		}
		ty := ""
		if !p.isOp(",") && !p.isOp(")") {
			ty, err = p.parseType()
			if err != nil {
				return nil, err
			}
		}
		out = append(out, CVar{n, ty})
		if p.isOp(",") {
			p.next()
		}
	}
	p.next()
	// propagate types backwards: (a, b int)
	last := ""
	for i := len(out) - 1; i >= 0; i-- {
		if out[i].Type == "" {
			out[i].Type = last
		} else {
			last = out[i].Type
		}
	}
	return out, nil
}

// parseType captures a Go type expression as text.
func (p *parser) parseType() (string, error) {
	t := p.peek()
	switch {
	case t.kind == "op" && t.text == "*":
		p.next()
		s, err := p.parseType()
		return "*" + s, err
	case t.kind == "op" && t.text == "[":
		p.next()
		if p.isOp("]") {
			p.next()
			s, err := p.parseType()
			return "[]" + s, err
		}
		n := p.next()
		if err := p.expectOp("]"); err != nil {
			return "", err
		}
		s, err := p.parseType()
		return "[" + n.text + "]" + s, err
	case t.kind == "id" && t.text == "map":
		p.next()
		if err := p.expectOp("["); err != nil {
			return "", err
		}
		k, err := p.parseType()
		if err != nil {
			return "", err
		}
		if err := p.expectOp("]"); err != nil {
			return "", err
		}
		v, err := p.parseType()
		return "map[" + k + "]" + v, err
	case t.kind == "id" && t.text == "struct":
		p.next()
		if err := p.expectOp("{"); err != nil {
			return "", err
		}
		if err := p.expectOp("}"); err != nil {
			return "", err
		}
		return "struct{}", nil
	case t.kind == "id":
		p.next()
		s := t.text
		if p.isOp(".") && p.toks[p.p+1].kind == "id" {
			p.next()
			s += "." + p.next().text
		}
		return s, nil
	}
	return "", p.errf("expected type, got %q", t.text)
}

func (p *parser) parseClause() (Clause, error) {
	cl := Clause{Line: p.peek().line}
	if p.isOp("[") && !p.peek().spaceBefore {
		p.next()
		var sb strings.Builder
		for !p.isOp("]") {
			if p.peek().kind == "eof" {
				return cl, p.errf("unterminated label")
			}
			sb.WriteString(p.next().text)
		}
		p.next()
		cl.Label = sb.String()
	}
	start := p.peek().pos
	e, err := p.parseExpr()
	if err != nil {
		return cl, err
	}
	cl.Expr = e
	cl.Text = strings.Join(strings.Fields(stripComments(p.src[start:p.peek().pos])), " ")
	return cl, nil
}

func (p *parser) parseFuncClauses(fc *FuncContract) error {
	var curLoop *LoopContract
	for {
		t := p.peek()
		if t.kind != "id" {
			return nil
		}
		switch t.text {
		case "requires", "ensures":
			p.next()
			cl, err := p.parseClause()
			if err != nil {
				return err
			}
			if t.text == "requires" {
				fc.Requires = append(fc.Requires, cl)
			} else {
				fc.Ensures = append(fc.Ensures, cl)
			}
			curLoop = nil
		case "assigns":
			p.next()
			fc.HasAssigns = true
			if p.isKW("nothing") {
				p.next()
				continue
			}
			for {
				e, err := p.parseExpr()
				if err != nil {
					return err
				}
				fc.Assigns = append(fc.Assigns, e)
				if p.isOp(",") {
					p.next()
					continue
				}
				break
			}
		case "flags":
			p.next()
			for p.peek().kind == "id" && !clauseKW[p.peek().text] {
				fc.Flags[p.next().text] = true
				if p.isOp(",") {
					p.next()
				}
			}
		case "split":
			p.next()
			cl, err := p.parseClause()
			if err != nil {
				return err
			}
			fc.Cases = append(fc.Cases, cl)
		case "refines":
			p.next()
			var sb strings.Builder
			for {
				n, err := p.ident()
				if err != nil {
					return err
				}
				sb.WriteString(n)
				if p.isOp(".") {
					p.next()
					sb.WriteString(".")
					continue
				}
				break
			}
			r := sb.String()
			if strings.Count(r, ".") == 1 {
				r = p.pkg + "." + r
			}
			fc.Refines = append(fc.Refines, r)
		case "implements":
			p.next()
			var sb strings.Builder
			for {
				n, err := p.ident()
				if err != nil {
					return err
				}
				sb.WriteString(n)
				if p.isOp(".") {
					p.next()
					sb.WriteString(".")
					continue
				}
				break
			}
			r := sb.String()
			if strings.Count(r, ".") == 1 {
				r = p.pkg + "." + r
			}
			if !p.isKW("when") {
				return p.errf("implements: `when <condition>` expected")
			}
			p.next()
			cl, err := p.parseClause()
			if err != nil {
				return err
			}
			fc.Implements = append(fc.Implements, ImplClause{Target: r, When: cl})
		case "def":
			p.next()
			e, err := p.parseExpr()
			if err != nil {
				return err
			}
			fc.Def = e
			fc.Flags["pure"] = true
		case "loop":
			p.next()
			n := p.next()
			k, err := strconv.Atoi(n.text)
			if err != nil {
				return p.errf("loop number expected")
			}
			curLoop = &LoopContract{N: k}
			fc.Loops[k] = curLoop
		case "invariant":
			if curLoop == nil {
				return p.errf("invariant outside loop")
			}
			p.next()
			cl, err := p.parseClause()
			if err != nil {
				return err
			}
			curLoop.Invariants = append(curLoop.Invariants, cl)
		case "decreases":
			if curLoop == nil {
				return p.errf("decreases outside loop")
			}
			p.next()
			start := p.peek().pos
			e, err := p.parseExpr()
			if err != nil {
				return err
			}
			curLoop.Decreases = e
			curLoop.DecText = strings.TrimSpace(stripComments(p.src[start:p.peek().pos]))
		case "modifies":
			if curLoop == nil {
				return p.errf("modifies outside loop")
			}
			p.next()
			for {
				e, err := p.parseExpr()
				if err != nil {
					return err
				}
				curLoop.Modifies = append(curLoop.Modifies, e)
				if p.isOp(",") {
					p.next()
					continue
				}
				break
			}
		case "assert", "assume":
			p.next()
			cl, err := p.parseClause()
			if err != nil {
				return err
			}
			if !p.isKW("at") {
				return p.errf("expected 'at' after %s", t.text)
			}
			p.next()
			ac := AnchorClause{Kind: t.text, Clause: cl}
			what, err := p.ident()
			if err != nil {
				return err
			}
			switch what {
			case "call":
				var sb strings.Builder
				for p.peek().kind == "id" && !clauseKW[p.peek().text] || p.isOp(".") || p.isOp("(") || p.isOp(")") || p.isOp("*") {
					sb.WriteString(p.next().text)
				}
				ac.Callee = sb.String()
				ac.K = 1
				if p.peek().kind == "int" {
					ac.K, _ = strconv.Atoi(p.next().text)
				}
				ac.At = "call"
			case "return":
				ac.At = "return"
				if t := p.next(); t.text == "last" {
					ac.K = -1 // the last return statement in source order (usually the success return)
				} else {
					ac.K, _ = strconv.Atoi(t.text)
				}
			case "store":
				// at store T.f [K]
				a, err := p.ident()
				if err != nil {
					return err
				}
				if err := p.expectOp("."); err != nil {
					return err
				}
				b, err := p.ident()
				if err != nil {
					return err
				}
				ac.At, ac.Callee, ac.K = "store", a+"."+b, 1
				if p.peek().kind == "int" {
					ac.K, _ = strconv.Atoi(p.next().text)
				}
			case "select":
				ac.At = "select"
				ac.K = 1
				if p.peek().kind == "int" {
					ac.K, _ = strconv.Atoi(p.next().text)
				}
			case "loop":
				ac.At = "loophead"
				ac.K, _ = strconv.Atoi(p.next().text)
				if p.isKW("head") {
					p.next()
				}
			default:
				return p.errf("bad anchor %q", what)
			}
			fc.Anchors = append(fc.Anchors, ac)
		default:
			return nil
		}
	}
}

// ---- expressions (precedence climbing) ----

func (p *parser) parseExpr() (CExpr, error) { return p.parseIff() }

func (p *parser) parseIff() (CExpr, error) {
	l, err := p.parseImp()
	if err != nil {
		return nil, err
	}
	for p.isOp("<==>") {
		p.next()
		r, err := p.parseImp()
		if err != nil {
			return nil, err
		}
		l = &CBin{"<==>", l, r}
	}
	return l, nil
}

func (p *parser) parseImp() (CExpr, error) {
	l, err := p.parseOr()
	if err != nil {
		return nil, err
	}
	if p.isOp("==>") {
		p.next()
		r, err := p.parseImp() // right assoc
		if err != nil {
			return nil, err
		}
		return &CBin{"==>", l, r}, nil
	}
	return l, nil
}

func (p *parser) parseOr() (CExpr, error) {
	l, err := p.parseAnd()
	if err != nil {
		return nil, err
	}
	for p.isOp("||") {
		p.next()
		r, err := p.parseAnd()
		if err != nil {
			return nil, err
		}
		l = &CBin{"||", l, r}
	}
	return l, nil
}

func (p *parser) parseAnd() (CExpr, error) {
	l, err := p.parseCmp()
	if err != nil {
		return nil, err
	}
	for p.isOp("&&") {
		p.next()
		r, err := p.parseCmp()
		if err != nil {
			return nil, err
		}
		l = &CBin{"&&", l, r}
	}
	return l, nil
}

func (p *parser) parseCmp() (CExpr, error) {
	first, err := p.parseAdd()
	if err != nil {
		return nil, err
	}
	var result CExpr
	prev := first
	for {
		t := p.peek()
		var cmp CExpr
		if t.kind == "op" && isCmpOp(t.text) {
			p.next()
			r, err := p.parseAdd()
			if err != nil {
				return nil, err
			}
			cmp = &CBin{t.text, prev, r}
			prev = r
		} else if t.kind == "id" && t.text == "in" {
			p.next()
			r, err := p.parseAdd()
			if err != nil {
				return nil, err
			}
			cmp = &CCall{Fun: &CIdent{"has"}, Args: []CExpr{r, prev}}
			prev = r
		} else {
			if result == nil {
				return first, nil
			}
			return result, nil
		}
		if result == nil {
			result = cmp
		} else {
			result = &CBin{"&&", result, cmp}
		}
	}
}


func isCmpOp(op string) bool {
	switch op {
	case "==", "!=", "<", "<=", ">", ">=":
		return true
	}
	return false
}

func (p *parser) parseAdd() (CExpr, error) {
	l, err := p.parseMul()
	if err != nil {
		return nil, err
	}
	for {
		t := p.peek()
		if t.kind == "op" && (t.text == "+" || t.text == "-" || t.text == "|") {
			p.next()
			r, err := p.parseMul()
			if err != nil {
				return nil, err
			}
			l = &CBin{t.text, l, r}
			continue
		}
		return l, nil
	}
}

func (p *parser) parseMul() (CExpr, error) {
	l, err := p.parseUnary()
	if err != nil {
		return nil, err
	}
	for {
		t := p.peek()
		if t.kind == "op" && (t.text == "*" || t.text == "/" || t.text == "%" || t.text == "&") {
			p.next()
			r, err := p.parseUnary()
			if err != nil {
				return nil, err
			}
			l = &CBin{t.text, l, r}
			continue
		}
		return l, nil
	}
}

func (p *parser) parseUnary() (CExpr, error) {
	t := p.peek()
	if t.kind == "op" && (t.text == "!" || t.text == "-" || t.text == "&" || t.text == "*") {
		p.next()
		x, err := p.parseUnary()
		if err != nil {
			return nil, err
		}
		return &CUn{t.text, x}, nil
	}
	return p.parsePostfix()
}

func (p *parser) parsePostfix() (CExpr, error) {
	x, err := p.parsePrimary()
	if err != nil {
		return nil, err
	}
	for {
		switch {
		case p.isOp("."):
			p.next()
			if p.isOp("(") {
				p.next()
				ty, err := p.parseType()
				if err != nil {
					return nil, err
				}
				if err := p.expectOp(")"); err != nil {
					return nil, err
				}
				x = &CTypeAssert{x, ty}
				continue
			}
			n, err := p.ident()
			if err != nil {
				return nil, err
			}
			x = &CSel{x, n}
		case p.isOp("["):
			p.next()
			if p.isOp(":") {
				p.next()
				var hi CExpr
				if !p.isOp("]") {
					hi, err = p.parseExpr()
					if err != nil {
						return nil, err
					}
				}
				if err := p.expectOp("]"); err != nil {
					return nil, err
				}
				x = &CSlice{x, nil, hi}
				continue
			}
			i, err := p.parseExpr()
			if err != nil {
				return nil, err
			}
			switch {
			case p.isOp(":="):
				p.next()
				v, err := p.parseExpr()
				if err != nil {
					return nil, err
				}
				if err := p.expectOp("]"); err != nil {
					return nil, err
				}
				x = &CUpd{x, i, v}
			case p.isOp(":"):
				p.next()
				var hi CExpr
				if !p.isOp("]") {
					hi, err = p.parseExpr()
					if err != nil {
						return nil, err
					}
				}
				if err := p.expectOp("]"); err != nil {
					return nil, err
				}
				x = &CSlice{x, i, hi}
			default:
				if err := p.expectOp("]"); err != nil {
					return nil, err
				}
				x = &CIdx{x, i}
			}
		case p.isOp("(") && !p.peek().spaceBefore:
			p.next()
			var args []CExpr
			// typeis(x, T)
			if id, ok := x.(*CIdent); ok && id.Name == "typeis" {
				a, err := p.parseExpr()
				if err != nil {
					return nil, err
				}
				if err := p.expectOp(","); err != nil {
					return nil, err
				}
				ty, err := p.parseType()
				if err != nil {
					return nil, err
				}
				if err := p.expectOp(")"); err != nil {
					return nil, err
				}
				x = &CTypeIs{a, ty}
				continue
			}
			for !p.isOp(")") {
				a, err := p.parseExpr()
				if err != nil {
					return nil, err
				}
				args = append(args, a)
				if p.isOp(",") {
					p.next()
				} else if !p.isOp(")") {
					return nil, p.errf("expected , or ) in call, got %q", p.peek().text)
				}
			}
			p.next()
			if id, ok := x.(*CIdent); ok && id.Name == "old" && len(args) == 1 {
				x = &COld{args[0]}
			} else {
				x = &CCall{x, args}
			}
		default:
			return x, nil
		}
	}
}

func (p *parser) parsePrimary() (CExpr, error) {
	t := p.next()
	switch t.kind {
	case "int":
		return &CInt{t.text}, nil
	case "str":
		return &CStr{t.text}, nil
	case "id":
		switch t.text {
		case "true":
			return &CBool{true}, nil
		case "false":
			return &CBool{false}, nil
		case "nil":
			return &CNil{}, nil
		case "forall", "exists":
			var vars []CVar
			for {
				n, err := p.ident()
				if err != nil {
					return nil, err
				}
				ty := ""
				if !p.isOp(",") && !p.isOp("::") {
					ty, err = p.parseType()
					if err != nil {
						return nil, err
					}
				}
				vars = append(vars, CVar{n, ty})
				if p.isOp(",") {
					p.next()
					continue
				}
				break
			}
			if err := p.expectOp("::"); err != nil {
				return nil, err
			}
			last := ""
			for i := len(vars) - 1; i >= 0; i-- {
				if vars[i].Type == "" {
					vars[i].Type = last
				} else {
					last = vars[i].Type
				}
			}
			body, err := p.parseExpr()
			if err != nil {
				return nil, err
			}
			return &CQuant{t.text == "forall", vars, body}, nil
		}
		return &CIdent{t.text}, nil
	case "op":
		if t.text == "(" {
			e, err := p.parseExpr()
			if err != nil {
				return nil, err
			}
			if err := p.expectOp(")"); err != nil {
				return nil, err
			}
			return e, nil
		}
	}
	return nil, fmt.Errorf("%s:%d: unexpected token %q", p.file, t.line, t.text)
}


func stripComments(s string) string {
	var out []string
	for _, ln := range strings.Split(s, "\n") {
		if i := strings.Index(ln, "//"); i >= 0 {
			ln = ln[:i]
		}
		out = append(out, ln)
	}
	return strings.Join(out, "\n")
}
