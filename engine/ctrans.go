package main

import (
	"fmt"
	"go/constant"
	"go/types"
	"strings"
)

// trBool translates a contract expression of boolean type.
func (x *Exec) trBool(e CExpr, env *Env) Term {
	v := x.tr(e, env)
	if v.S == "" {
		x.fail("contract expression %s is not a term", e.cstr())
	}
	return v.S
}

func (x *Exec) trTerm(e CExpr, env *Env) Term { return x.tr(e, env).S }

var tInt = types.Typ[types.Int]
var tInt64 = types.Typ[types.Int64]
var tBool = types.Typ[types.Bool]

func (x *Exec) resolveType(env *Env, text string) types.Type {
	return x.eng.resolveType(env.pkg, text)
}

func (x *Exec) tr(e CExpr, env *Env) Val {
	switch t := e.(type) {
	case *CInt:
		s := t.Val
		if strings.HasPrefix(s, "0x") || strings.HasPrefix(s, "0X") || strings.HasPrefix(s, "0b") || strings.Contains(s, "_") {
			cv := constant.MakeFromLiteral(s, 5 /*token.INT*/, 0)
			s = cv.ExactString()
		}
		return Val{T: types.Typ[types.UntypedInt], S: s}
	case *CBool:
		if t.Val {
			return Val{T: tBool, S: "true"}
		}
		return Val{T: tBool, S: "false"}
	case *CNil:
		return Val{T: types.Typ[types.UntypedNil], S: "nil"}
	case *CStr:
		return Val{T: types.Typ[types.String], S: x.so.strConst(t.Val)}
	case *CIdent:
		return x.trIdent(t, env)
	case *COld:
		oe := env.inState(env.old)
		oe.inOld = true
		return x.tr(t.X, oe)
	case *CUn:
		switch t.Op {
		case "!":
			return Val{T: tBool, S: not(x.trBool(t.X, env))}
		case "-":
			v := x.tr(t.X, env)
			return Val{T: v.T, S: "(- " + v.S + ")"}
		case "*":
			p := x.tr(t.X, env)
			return x.loadPtr(env.cur, p)
		case "&":
			// address identity of a field: used for locks
			if s, ok := t.X.(*CSel); ok {
				base := x.tr(s.X, env)
				loc := x.selLoc(base, s.Name, env)
				if loc != nil && loc.Kind == lField {
					return Val{T: types.NewPointer(loc.T), S: x.addrTerm(loc)}
				}
			}
			x.fail("unsupported address-of in contract: %s", e.cstr())
		}
	case *CBin:
		return x.trBin(t, env)
	case *CSel:
		return x.trSel(t, env)
	case *CIdx:
		return x.trIndex(t, env)
	case *CSlice:
		b := x.tr(t.X, env)
		lo, hi := "0", app("s_len", b.S)
		if t.Lo != nil {
			lo = x.trTerm(t.Lo, env)
		}
		if t.Hi != nil {
			hi = x.trTerm(t.Hi, env)
		}
		return Val{T: b.T, S: fmt.Sprintf("(mk_slice (s_reg %s) (+ (s_off %s) %s) (- %s %s) (- (s_cap %s) %s))", b.S, b.S, lo, hi, lo, b.S, lo)}
	case *CUpd:
		b := x.tr(t.X, env)
		i := x.tr(t.I, env)
		v := x.tr(t.V, env)
		return Val{T: b.T, S: store(b.S, i.S, v.S), GM: b.GM}
	case *CQuant:
		return x.trQuant(t, env)
	case *CCall:
		return x.trCall(t, env)
	case *CTypeAssert:
		v := x.tr(t.X, env)
		ty := x.resolveType(env, t.Type)
		return Val{T: ty, S: x.unpayload(app("i_val", v.S), ty)}
	case *CTypeIs:
		v := x.tr(t.X, env)
		ty := x.resolveType(env, t.Type)
		return Val{T: tBool, S: eq(app("i_tag", v.S), fmt.Sprint(x.so.typeTag(ty)))}
	}
	x.fail("cannot translate %s (%T)", e.cstr(), e)
	return Val{}
}

func (x *Exec) trIdent(t *CIdent, env *Env) Val {
	if v, ok := env.vars[t.Name]; ok {
		return v
	}
	if env.inOld && env.fr != nil {
		// old(x) of a parameter is its entry value
		for _, p := range env.fr.fn.Params {
			if p.Name() == t.Name {
				return env.fr.vals[p]
			}
		}
	}
	if env.lookup != nil {
		if v, ok := env.lookup(t.Name); ok {
			return v
		}
	}
	if gv, ok := x.eng.cs.GVars[t.Name]; ok {
		key, srt := x.ghostVarKey(gv)
		return Val{T: x.eng.resolveType(x.eng.pkgByShort(gv.Pkg), gv.GoType), S: x.heapGet(env.cur, key, srt), GM: x.ghostMapInfo(gv)}
	}
	// package scope
	if env.pkg != nil {
		if obj := env.pkg.Scope().Lookup(t.Name); obj != nil {
			return x.objVal(obj, env)
		}
	}
	if obj := types.Universe.Lookup(t.Name); obj != nil {
		if c, ok := obj.(*types.Const); ok {
			return x.constObj(c)
		}
	}
	x.fail("unknown identifier %q in contract", t.Name)
	return Val{}
}

func (x *Exec) constObj(c *types.Const) Val {
	switch c.Val().Kind() {
	case constant.Int:
		if v, ok := constant.Int64Val(c.Val()); ok {
			return Val{T: c.Type(), S: intLit(v)}
		}
		return Val{T: c.Type(), S: c.Val().ExactString()}
	case constant.Bool:
		if constant.BoolVal(c.Val()) {
			return Val{T: c.Type(), S: "true"}
		}
		return Val{T: c.Type(), S: "false"}
	case constant.String:
		return Val{T: c.Type(), S: x.so.strConst(constant.StringVal(c.Val()))}
	}
	x.fail("constant %s of unsupported kind", c.Name())
	return Val{}
}

func (x *Exec) objVal(obj types.Object, env *Env) Val {
	switch o := obj.(type) {
	case *types.Const:
		return x.constObj(o)
	case *types.Var:
		g := x.eng.globalOf(o)
		if g == nil {
			x.fail("no SSA global for %s", o.Name())
		}
		if at, isArr := under(g.Type().(*types.Pointer).Elem()).(*types.Array); isArr {
			// a package-level array is used through its region (indexing in contracts, slicing in code)
			gp := x.globalPtr(g)
			return Val{T: at, L: gp.L}
		}
		if v, ok := x.eng.globalValue(x, g); ok {
			return v
		}
		return x.loadPtr(env.cur, x.globalPtr(g))
	case *types.PkgName:
		return Val{T: nil, S: "pkg:" + o.Imported().Path()}
	}
	x.fail("identifier %s is not a value", obj.Name())
	return Val{}
}

func isUntypedNil(v Val) bool {
	b, ok := v.T.(*types.Basic)
	return ok && b.Kind() == types.UntypedNil
}

// coerce converts nil literals to the zero of the target type.
func (x *Exec) coerce(v Val, target types.Type) Val {
	if isUntypedNil(v) && target != nil {
		return Val{T: target, S: x.so.zero(target)}
	}
	return v
}

func (x *Exec) trBin(t *CBin, env *Env) Val {
	switch t.Op {
	case "&&":
		return Val{T: tBool, S: and(x.trBool(t.L, env), x.trBool(t.R, env))}
	case "||":
		return Val{T: tBool, S: or(x.trBool(t.L, env), x.trBool(t.R, env))}
	case "==>":
		return Val{T: tBool, S: implies(x.trBool(t.L, env), x.trBool(t.R, env))}
	case "<==>":
		return Val{T: tBool, S: eq(x.trBool(t.L, env), x.trBool(t.R, env))}
	}
	l := x.tr(t.L, env)
	r := x.tr(t.R, env)
	switch t.Op {
	case "==", "!=":
		var s Term
		switch {
		case isUntypedNil(l) && isUntypedNil(r):
			s = "true"
		case isUntypedNil(r):
			s = x.isNil(l)
		case isUntypedNil(l):
			s = x.isNil(r)
		default:
			if l.S == "" || r.S == "" {
				x.fail("cannot compare %s", t.cstr())
			}
			s = eq(l.S, r.S)
		}
		if t.Op == "!=" {
			s = not(s)
		}
		return Val{T: tBool, S: s}
	case "<", "<=", ">", ">=":
		return Val{T: tBool, S: "(" + t.Op + " " + l.S + " " + r.S + ")"}
	case "+", "-", "*":
		if t.Op == "+" && l.T != nil && x.so.sortOf(l.T) == "Str" {
			x.sc.declFun("strcat", []string{"Str", "Str"}, "Str")
			return Val{T: l.T, S: app("strcat", l.S, r.S)}
		}
		rt := l.T
		if b, ok := rt.(*types.Basic); ok && b.Kind() == types.UntypedInt {
			rt = r.T
		}
		return Val{T: rt, S: "(" + t.Op + " " + l.S + " " + r.S + ")"}
	case "/":
		return Val{T: l.T, S: app("tdiv", l.S, r.S)}
	case "%":
		return Val{T: l.T, S: app("tmod", l.S, r.S)}
	}
	x.fail("operator %s not supported in contracts", t.Op)
	return Val{}
}

func (x *Exec) isNil(v Val) Term {
	if v.T == nil {
		x.fail("nil comparison of untyped value")
	}
	switch x.so.sortOf(v.T) {
	case "Slice":
		return eq(app("s_reg", v.S), "0")
	case "Err":
		return eq(v.S, "nilErr")
	case "Iface":
		return eq(app("i_tag", v.S), "0")
	case "Int":
		return eq(v.S, "0")
	}
	x.fail("nil comparison on %s", v.T)
	return ""
}

// selLoc resolves base.name to a location when base is a pointer to a struct
// (including ghost fields).
func (x *Exec) selLoc(base Val, name string, env *Env) *Loc {
	if base.T == nil {
		return nil
	}
	pt, ok := under(base.T).(*types.Pointer)
	if !ok {
		return nil
	}
	si := x.so.structOf(pt.Elem())
	if si == nil {
		return nil
	}
	for i, f := range si.Fields {
		if f.Name == name {
			return x.fieldLoc(base, i)
		}
	}
	if gf := x.eng.ghostField(si, name); gf != nil {
		if base.L != nil {
			x.fail("ghost field %s on a static location", name)
		}
		key, srt, gt := x.ghostFieldKey(si, gf)
		x.heapBase(key, srt)
		return &Loc{Kind: lField, Ref: base.S, Key: key, RootT: gt, T: gt}
	}
	// promoted through embedded fields
	for i, f := range si.Fields {
		if st := si.T.Field(i); st.Embedded() {
			inner := x.fieldLoc(base, i)
			if isi := x.so.structOf(f.T); isi != nil {
				for j, ff := range isi.Fields {
					if ff.Name == name {
						l := *inner
						l.Path = append(append([]pstep{}, inner.Path...), pstep{j, isi})
						l.T = ff.T
						return &l
					}
				}
			}
		}
	}
	return nil
}

func (x *Exec) trSel(t *CSel, env *Env) Val {
	// package-qualified identifier?
	if id, ok := t.X.(*CIdent); ok {
		if _, isVar := env.vars[id.Name]; !isVar {
			found := false
			if env.lookup != nil {
				_, found = env.lookup(id.Name)
			}
			if !found && env.pkg != nil {
				if _, gv := x.eng.cs.GVars[id.Name]; !gv {
					if p := x.eng.importedPkg(env.pkg, id.Name); p != nil {
						obj := p.Scope().Lookup(t.Name)
						if obj == nil {
							x.fail("%s.%s not found", id.Name, t.Name)
						}
						return x.objVal(obj, env)
					}
				}
			}
		}
	}
	base := x.tr(t.X, env)
	if base.T == nil {
		x.fail("selector %s on untyped value", t.cstr())
	}
	if loc := x.selLoc(base, t.Name, env); loc != nil {
		v := x.load(env.cur, loc)
		if _, isSlice := under(loc.T).(*types.Slice); isSlice && len(v.S) < 300 {
			x.assumeHere(app("wfSlice", v.S)) // every slice value in a well-typed heap is well formed
		}
		if loc.Kind == lField && strings.Contains(loc.Key, ".") {
			if si := x.so.structOf(under(base.T).(*types.Pointer).Elem()); si != nil && x.eng.ghostField(si, t.Name) != nil {
				v.GM = x.eng.ghostMapInfoOfType(x, loc.T)
			}
		}
		return v
	}
	// struct value
	if si := x.so.structOf(base.T); si != nil {
		for _, f := range si.Fields {
			if f.Name == t.Name {
				v := Val{T: f.T, S: app(f.Sel, base.S)}
				if _, isSlice := under(f.T).(*types.Slice); isSlice && len(v.S) < 300 {
					x.assumeHere(app("wfSlice", v.S)) // a slice field of a struct value is a well-formed slice
				}
				return v
			}
		}
		for i, f := range si.Fields {
			if si.T.Field(i).Embedded() {
				if isi := x.so.structOf(f.T); isi != nil {
					for _, ff := range isi.Fields {
						if ff.Name == t.Name {
							return Val{T: ff.T, S: app(ff.Sel, app(f.Sel, base.S))}
						}
					}
				}
			}
		}
	}
	x.fail("no field %s in %s", t.Name, base.T)
	return Val{}
}

func (x *Exec) trIndex(t *CIdx, env *Env) Val {
	b := x.tr(t.X, env)
	i := x.tr(t.I, env)
	if b.GM != nil {
		// ghost total map / set: select
		return Val{T: b.GM.Elem, S: sel(b.S, i.S), GM: x.eng.ghostMapInfoOfType(x, b.GM.Elem)}
	}
	switch bt := under(b.T).(type) {
	case *types.Array:
		if b.L != nil && b.L.ArrRegion != "" {
			key, srt := x.elemKey(bt.Elem())
			return Val{T: bt.Elem(), S: sel(sel(x.heapGet(env.cur, key, srt), b.L.ArrRegion), i.S)}
		}
	case *types.Slice:
		key, srt := x.elemKey(bt.Elem())
		return Val{T: bt.Elem(), S: sel(sel(x.heapGet(env.cur, key, srt), app("s_reg", b.S)), app("sidx", app("s_off", b.S), i.S))}
	case *types.Map:
		_, _, vk, vs := x.mapKeys(bt)
		if x.so.sortOf(bt.Elem()) == "Unit" {
			x.fail("indexing a set-like map; use has(m, k)")
		}
		return Val{T: bt.Elem(), S: sel(sel(x.heapGet(env.cur, vk, vs), b.S), i.S)}
	}
	x.fail("cannot index %s", b.T)
	return Val{}
}

func (x *Exec) trQuant(t *CQuant, env *Env) Val {
	ne := env
	var binders []string
	var guards []Term
	for _, v := range t.Vars {
		ty := types.Type(tInt)
		if v.Type != "" {
			ty = x.resolveType(env, v.Type)
		}
		x.qn++
		name := fmt.Sprintf("%s_q%d", v.Name, x.qn)
		if _, isMap := under(ty).(*types.Map); isMap {
			// a bound variable of map type ranges over ghost (total) maps: an SMT array
			ne = ne.with(v.Name, Val{T: ty, S: name, GM: x.eng.ghostMapInfoOfType(x, ty)})
			binders = append(binders, fmt.Sprintf("(%s %s)", name, x.ghostSort(ty)))
			continue
		}
		ne = ne.with(v.Name, Val{T: ty, S: name})
		binders = append(binders, fmt.Sprintf("(%s %s)", name, x.so.sortOf(ty)))
		// no range guards on bound variables: contracts quantify over mathematical integers
	}
	from := len(x.sc.asserts)
	body := x.trBool(t.Body, ne)
	// side facts emitted while translating the body must not mention the bound variables
	if len(x.sc.asserts) > from {
		kept := x.sc.asserts[:from]
		for _, a := range x.sc.asserts[from:] {
			leak := false
			for _, v := range t.Vars {
				_ = v
			}
			for _, b := range binders {
				name := b[1:strings.Index(b, " ")]
				if strings.Contains(a, name) {
					leak = true
				}
			}
			if !leak {
				kept = append(kept, a)
			}
		}
		x.sc.asserts = kept
	}
	q := "forall"
	if !t.Forall {
		q = "exists"
		body = and(append(guards, body)...)
	} else {
		body = implies(and(guards...), body)
	}
	return Val{T: tBool, S: fmt.Sprintf("(%s (%s) %s)", q, strings.Join(binders, " "), body)}
}

func (x *Exec) trCall(t *CCall, env *Env) Val {
	// method-style pure calls: recv.Method(args)
	if s, ok := t.Fun.(*CSel); ok {
		// package-qualified function (spec/pred can't be qualified; repo pure function)
		if id, ok := s.X.(*CIdent); ok {
			if _, isVar := env.vars[id.Name]; !isVar && env.pkg != nil {
				found := false
				if env.lookup != nil {
					_, found = env.lookup(id.Name)
				}
				if p := x.eng.importedPkg(env.pkg, id.Name); p != nil && !found {
					return x.pureCall(shortPkg(p.Path())+"."+s.Name, nil, t.Args, env)
				}
			}
		}
		recv := x.tr(s.X, env)
		return x.pureMethod(recv, s.Name, t.Args, env)
	}
	id, ok := t.Fun.(*CIdent)
	if !ok {
		x.fail("unsupported call %s", t.cstr())
	}
	arg := func(i int) Val { return x.tr(t.Args[i], env) }
	switch id.Name {
	case "len":
		if a := arg(0); a.T == bseqType {
			x.declBytesEq()
			return Val{T: tInt, S: app("bseqLen", a.S)}
		}
		return Val{T: tInt, S: x.lenOf(env.cur, arg(0))}
	case "cap":
		return Val{T: tInt, S: app("s_cap", arg(0).S)}
	case "has":
		m := arg(0)
		k := arg(1)
		if m.GM != nil {
			return Val{T: tBool, S: sel(m.S, k.S)}
		}
		return Val{T: tBool, S: sel(x.mapDom(env.cur, m), k.S)}
	case "had":
		// membership in the map as it was on entry (key evaluated in the current state)
		m := arg(0)
		k := arg(1)
		return Val{T: tBool, S: sel(x.mapDom(env.old, m), k.S)}
	case "is":
		return Val{T: tBool, S: app("wraps", arg(0).S, arg(1).S)}
	case "allocated":
		// the object exists at this program point (it is not one allocated later): separates the
		// elements of a collection from objects the loop body is about to allocate
		v := arg(0)
		top := fmt.Sprintf("(+ %s %d)", x.allocBase, x.allocN)
		if _, ok := under(v.T).(*types.Slice); ok {
			return Val{T: tBool, S: le(app("s_reg", v.S), top)}
		}
		return Val{T: tBool, S: le(v.S, top)}
	case "entryElems":
		// entryElems(s): every slice region of s's element type that existed at function entry still holds
		// the elements it held then (the loop writes only into regions allocated since)
		v := arg(0)
		slt, ok := under(v.T).(*types.Slice)
		if !ok {
			x.fail("entryElems: slice expected")
		}
		key, srt := x.elemKey(slt.Elem())
		cur := x.heapGet(env.cur, key, srt)
		old := x.heapGet(env.old, key, srt)
		return Val{T: tBool, S: fmt.Sprintf("(forall ((r Int)) (! (=> (and (> r 0) (<= r allocBase0)) (= (select %s r) (select %s r))) :pattern ((select %s r))))", cur, old, cur)}
	case "chClosed":
		return Val{T: tBool, S: sel(x.chGet(env.cur, chClosedKey, arg(0).T), arg(0).S)}
	case "chFull":
		return Val{T: tBool, S: sel(x.chGet(env.cur, chFullKey, arg(0).T), arg(0).S)}
	case "chCap":
		return Val{T: tInt, S: sel(x.chGet(env.cur, chCapKey, arg(0).T), arg(0).S)}
	case "chVal":
		// the buffered value of a channel of channels
		c := arg(0)
		et := types.Type(tInt)
		if ct, ok := under(c.T).(*types.Chan); ok {
			et = ct.Elem()
		}
		return Val{T: et, S: sel(x.chGet(env.cur, chValKey, c.T), c.S)}
	case "fnIs":
		// fnIs(v, "pkg.(*T).m$bound"): the function value v is that function (bound method or closure)
		lit, ok := t.Args[1].(*CStr)
		if !ok {
			x.fail("fnIs: second argument must be a string literal naming the function")
		}
		key := lit.Val
		return Val{T: tBool, S: eq(arg(0).S, x.funcIDByKey(key))}
	case "sprintf":
		// sprintf("<format>", args...): the same uninterpreted function the executed fmt.Sprintf call is modelled by
		lit, ok := t.Args[0].(*CStr)
		if !ok {
			x.fail("sprintf: the format must be a string literal")
		}
		var sorts []string
		var terms []Term
		for i := 1; i < len(t.Args); i++ {
			v := arg(i)
			sorts = append(sorts, x.so.sortOf(v.T))
			terms = append(terms, v.S)
		}
		fn := "sprintf_" + sanitize(strings.TrimPrefix(x.so.strConst(lit.Val), "str!")) + "_" + fmt.Sprint(len(terms))
		x.sc.declFun(fn, sorts, "Str")
		return Val{T: types.Typ[types.String], S: app(fn, terms...)}
	case "pathJoin":
		// filepath.Join(a, b) as the executed code computes it (injective uninterpreted function)
		x.sc.declFun("pathJoin", []string{"Str", "Str"}, "Str")
		x.sc.declare("ax:pathJoin", "(assert (forall ((a Str) (b Str) (c Str) (d Str)) (! (=> (= (pathJoin a b) (pathJoin c d)) (and (= a c) (= b d))) :pattern ((pathJoin a b) (pathJoin c d)))))")
		return Val{T: types.Typ[types.String], S: app("pathJoin", arg(0).S, arg(1).S)}
	case "min":
		return Val{T: arg(0).T, S: app("imin", arg(0).S, arg(1).S)}
	case "max":
		return Val{T: arg(0).T, S: app("imax", arg(0).S, arg(1).S)}
	case "ite":
		a, b := arg(1), arg(2)
		if isUntypedNil(a) {
			a = x.coerce(a, b.T)
		}
		if isUntypedNil(b) {
			b = x.coerce(b, a.T)
		}
		return Val{T: a.T, S: ite(x.trBool(t.Args[0], env), a.S, b.S), GM: a.GM}
	case "fresh":
		v := arg(0)
		s := v.S
		if x.so.sortOf(v.T) == "Slice" {
			s = app("s_reg", v.S)
		}
		if env.freshHi != "" {
			return Val{T: tBool, S: and(lt(env.freshLo, s), le(s, env.freshHi))}
		}
		return Val{T: tBool, S: lt(env.freshLo, s)}
	case "int", "int64", "int32", "uint64", "uint32", "byte", "uint8":
		v := arg(0)
		return x.convert(v, types.Universe.Lookup(id.Name).Type())
	case "micro":
		return Val{T: tInt64, S: app("unixMicro", arg(0).S)}
	case "timeOf":
		return Val{T: x.eng.timeType(), S: app("timeOfMicro", arg(0).S)}
	case "isZeroTime":
		return Val{T: tBool, S: app("timeIsZero", arg(0).S)}
	case "after":
		return Val{T: tBool, S: app("timeAfter", arg(0).S, arg(1).S)}
	case "ioerr":
		// an error produced by the operating system / an external package: never one of the
		// module's sentinels and never wrapping one
		x.declIOErr()
		return Val{T: tBool, S: app("ioErr", arg(0).S)}
	case "region":
		return Val{T: tInt, S: app("s_reg", arg(0).S)}
	case "card":
		m := arg(0)
		if m.GM != nil {
			ks := m.GM.KeySort
			x.sc.declFun("card_"+sanitize(ks), []string{"(Array " + ks + " Bool)"}, "Int")
			x.cardFacts(ks, m.S)
			return Val{T: tInt, S: app("card_"+sanitize(ks), m.S)}
		}
		return Val{T: tInt, S: x.mapLen(env.cur, m)}
	case "domain":
		m := arg(0)
		mt := under(m.T).(*types.Map)
		return Val{T: nil, S: x.mapDom(env.cur, m), GM: &ghostMap{KeySort: x.so.sortOf(mt.Key()), Elem: tBool}}
	case "bytesEq":
		return Val{T: tBool, S: x.bytesEq(env.cur, arg(0), arg(1))}
	case "bseq":
		return Val{T: bseqType, S: x.bseq(env.cur, arg(0))}
	case "held":
		return Val{T: tInt, S: x.heldTerm(env.cur, arg(0))}
	case "abs":
		// element of a slice's backing array at an ABSOLUTE index (robust under reslicing)
		sv := arg(0)
		slt := under(sv.T).(*types.Slice)
		key, srt := x.elemKey(slt.Elem())
		return Val{T: slt.Elem(), S: sel(sel(x.heapGet(env.cur, key, srt), app("s_reg", sv.S)), arg(1).S)}
	case "base":
		return Val{T: tInt, S: app("s_off", arg(0).S)}
	case "s64":
		v := arg(0)
		return Val{T: tInt64, S: fmt.Sprintf("(ite (>= %s 9223372036854775808) (- %s 18446744073709551616) %s)", v.S, v.S, v.S)}
	case "u64":
		v := arg(0)
		return Val{T: tInt, S: fmt.Sprintf("(ite (< %s 0) (+ %s 18446744073709551616) %s)", v.S, v.S, v.S)}
	case "s32":
		v := arg(0)
		return Val{T: tInt, S: fmt.Sprintf("(ite (>= %s 2147483648) (- %s 4294967296) %s)", v.S, v.S, v.S)}
	case "range":
		// content of a byte range of a ghost byte map as a sequence value
		x.declBytesEq()
		return Val{T: bseqType, S: app("bseqOf", arg(0).S, arg(1).S, arg(2).S)}
	case "crcOf":
		x.sc.declFun("crc32c", []string{"BSeq"}, "Int")
		x.sc.declare("ax:crc32c", "(assert (forall ((s BSeq)) (! (and (<= 0 (crc32c s)) (<= (crc32c s) 4294967295)) :pattern ((crc32c s)))))")
		return Val{T: tInt, S: app("crc32c", arg(0).S)}
	case "heldAt":
		x.heapBase(heldKey, heldSort)
		return Val{T: tInt, S: sel(x.heapGet(env.cur, heldKey, heldSort), arg(0).S)}
	case "nolocks":
		x.heapBase(heldKey, heldSort)
		return Val{T: tBool, S: fmt.Sprintf("(forall ((a Int)) (! (= (select %s a) 0) :pattern ((select %s a))))", x.heapGet(env.cur, heldKey, heldSort), x.heapGet(env.cur, heldKey, heldSort))}
	}
	if pd, ok := x.eng.cs.Preds[id.Name]; ok {
		if len(pd.Params) != len(t.Args) {
			x.fail("pred %s: wrong number of arguments", id.Name)
		}
		penv := &Env{vars: map[string]Val{}, cur: env.cur, old: env.old, pkg: x.eng.pkgByShort(pd.Pkg), x: x, freshLo: env.freshLo, freshHi: env.freshHi}
		for i, p := range pd.Params {
			v := arg(i)
			if isUntypedNil(v) && p.Type != "" {
				v = x.coerce(v, x.eng.resolveType(penv.pkg, p.Type))
			}
			penv.vars[p.Name] = v
		}
		return x.tr(pd.Body, penv)
	}
	if sd, ok := x.eng.cs.Specs[id.Name]; ok {
		return x.specApp(sd, t.Args, env)
	}
	// pure function of the current package
	if env.pkg != nil {
		return x.pureCall(shortPkg(env.pkg.Path())+"."+id.Name, nil, t.Args, env)
	}
	x.fail("unknown function %s in contract", id.Name)
	return Val{}
}

// specApp applies an uninterpreted spec function. Slice arguments are passed
// as (contents array, off, len) so the function depends on contents, not identity.
func (x *Exec) specApp(sd *SpecDecl, args []CExpr, env *Env) Val {
	pk := x.eng.pkgByShort(sd.Pkg)
	var sorts []string
	var terms []Term
	for i, p := range sd.Params {
		pt := x.eng.resolveType(pk, p.Type)
		v := x.tr(args[i], env)
		v = x.coerce(v, pt)
		if slt, ok := under(pt).(*types.Slice); ok {
			key, srt := x.elemKey(slt.Elem())
			es := x.so.sortOf(slt.Elem())
			sorts = append(sorts, "(Array Int "+es+")", "Int", "Int")
			terms = append(terms, sel(x.heapGet(env.cur, key, srt), app("s_reg", v.S)), app("s_off", v.S), app("s_len", v.S))
			continue
		}
		if _, isMap := under(pt).(*types.Map); isMap {
			// ghost (total) map / set argument: pass the SMT array
			if v.GM == nil {
				x.fail("spec %s: argument %d must be a ghost map or domain(m)", sd.Name, i)
			}
			sorts = append(sorts, x.ghostSort(pt))
			terms = append(terms, v.S)
			continue
		}
		sorts = append(sorts, x.so.sortOf(pt))
		terms = append(terms, v.S)
	}
	rt := x.eng.resolveType(pk, sd.Result)
	fn := "spec_" + sd.Name
	x.sc.declFun(fn, sorts, x.so.sortOf(rt))
	x.eng.specAxioms(x, sd)
	return Val{T: rt, S: app(fn, terms...)}
}

// pureCall expands a repo function that has a `def` contract.
func (x *Exec) pureCall(key string, recv *Val, args []CExpr, env *Env) Val {
	fc := x.eng.cs.Funcs[key]
	if fc == nil || fc.Def == nil {
		x.fail("function %s used in a contract has no `def`", key)
	}
	fn := x.eng.prog.Funcs[key]
	if fn == nil {
		x.fail("pure function %s not found", key)
	}
	penv := &Env{vars: map[string]Val{}, cur: env.cur, old: env.old, pkg: fn.Pkg.Pkg, x: x}
	var vals []Val
	if recv != nil {
		vals = append(vals, *recv)
	}
	for _, a := range args {
		vals = append(vals, x.tr(a, env))
	}
	if len(vals) != len(fn.Params) {
		x.fail("pure call %s: %d args for %d params", key, len(vals), len(fn.Params))
	}
	for i, p := range fn.Params {
		penv.vars[p.Name()] = x.coerce(vals[i], p.Type())
	}
	r := x.tr(fc.Def, penv)
	if fn.Signature.Results().Len() == 1 {
		r.T = fn.Signature.Results().At(0).Type()
	}
	return r
}

func (x *Exec) pureMethod(recv Val, name string, args []CExpr, env *Env) Val {
	t := types.Unalias(recv.T)
	if tp, ok := t.(*types.TypeParam); ok {
		fn := "tpm_typeparam." + tp.Obj().Name() + "." + name
		fn = "tpm_" + sanitize("typeparam."+tp.Obj().Name()+"."+name)
		// result sort: look up method in constraint
		m, _, _ := types.LookupFieldOrMethod(tp, false, nil, name)
		rt := types.Type(tInt64)
		if f, ok := m.(*types.Func); ok {
			rt = f.Type().(*types.Signature).Results().At(0).Type()
		}
		x.sc.declFun(fn, []string{x.so.sortOf(recv.T)}, x.so.sortOf(rt))
		return Val{T: rt, S: app(fn, recv.S)}
	}
	star := ""
	if pt, ok := t.Underlying().(*types.Pointer); ok && !isNamedType(t) {
		star = "*"
		t = types.Unalias(pt.Elem())
	}
	nt, ok := t.(*types.Named)
	if !ok {
		x.fail("method %s on %s", name, recv.T)
	}
	pk := shortPkg(nt.Obj().Pkg().Path())
	key := fmt.Sprintf("%s.(%s%s).%s", pk, star, nt.Obj().Name(), name)
	if _, ok := x.eng.cs.Funcs[key]; !ok && star == "*" {
		// value-receiver method through pointer
		alt := fmt.Sprintf("%s.(%s).%s", pk, nt.Obj().Name(), name)
		if _, ok := x.eng.cs.Funcs[alt]; ok {
			v := x.loadPtr(env.cur, recv)
			return x.pureCall(alt, &v, args, env)
		}
	}
	return x.pureCall(key, &recv, args, env)
}

func isNamedType(t types.Type) bool {
	_, ok := t.(*types.Named)
	return ok
}

func (x *Exec) declIOErr() {
	if x.sc.declared["f:ioErr"] {
		return
	}
	x.sc.declFun("ioErr", []string{"Err"}, "Bool")
	x.sc.declFun("errId", []string{"Err"}, "Int")
	x.sc.assert("(forall ((e Err)) (! (=> (ioErr e) (and (>= (errId e) 1000000) (not (= e nilErr)) (forall ((t Err)) (! (=> (wraps e t) (or (>= (errId t) 1000) (= t e))) :pattern ((wraps e t)))))) :pattern ((ioErr e))))")
	x.trustedUsed["errors from the OS / external packages (ioerr) are not and do not wrap klevdb sentinel errors"] = true
}

// ---- byte sequences ----

func (x *Exec) bytesEq(st *State, a, b Val) Term {
	key, srt := x.elemKey(types.Typ[types.Uint8])
	h := x.heapGet(st, key, srt)
	x.declBytesEq()
	return app("bytesEq", sel(h, app("s_reg", a.S)), app("s_off", a.S), app("s_len", a.S), sel(h, app("s_reg", b.S)), app("s_off", b.S), app("s_len", b.S))
}

func (x *Exec) declBytesEq() {
	if x.sc.declared["f:bseqOf"] {
		return
	}
	// content of a byte slice as a value: bytesEq is equality of contents
	x.sc.declFun("bseqOf", []string{"(Array Int Int)", "Int", "Int"}, "BSeq")
	x.sc.declare("f:bytesEq", `(define-fun bytesEq ((a (Array Int Int)) (ao Int) (al Int) (b (Array Int Int)) (bo Int) (bl Int)) Bool (= (bseqOf a ao al) (bseqOf b bo bl)))`)
	// extensionality: equal contents iff same length and same bytes
	x.sc.declare("ax:bseqOf", `(assert (forall ((a (Array Int Int)) (ao Int) (al Int) (b (Array Int Int)) (bo Int) (bl Int)) (! (= (= (bseqOf a ao al) (bseqOf b bo bl)) (and (= (imax al 0) (imax bl 0)) (forall ((i Int)) (=> (and (<= 0 i) (< i al)) (= (select a (+ ao i)) (select b (+ bo i))))))) :pattern ((bseqOf a ao al) (bseqOf b bo bl)))))`)
	x.sc.declFun("bseqLen", []string{"BSeq"}, "Int")
	x.sc.declare("ax:bseqLen", `(assert (forall ((a (Array Int Int)) (ao Int) (al Int)) (! (= (bseqLen (bseqOf a ao al)) (imax al 0)) :pattern ((bseqOf a ao al)))))`)
}

// bseq abstracts the contents of a byte slice as a value of sort BSeq (extensional).
func (x *Exec) bseq(st *State, a Val) Term {
	key, srt := x.elemKey(types.Typ[types.Uint8])
	h := x.heapGet(st, key, srt)
	x.declBytesEq()
	return app("bseqOf", sel(h, app("s_reg", a.S)), app("s_off", a.S), app("s_len", a.S))
}

// ---- ghost vars / maps ----

func (x *Exec) ghostVarKey(gv *GhostVar) (string, string) {
	t := x.eng.resolveType(x.eng.pkgByShort(gv.Pkg), gv.GoType)
	srt := x.ghostSort(t)
	key := "X:" + gv.Name
	x.heapBase(key, srt)
	return key, srt
}

// ghostSort: ghost maps are total SMT arrays.
func (x *Exec) ghostSort(t types.Type) string {
	if mt, ok := under(t).(*types.Map); ok {
		return "(Array " + x.so.sortOf(mt.Key()) + " " + x.ghostSort(mt.Elem()) + ")"
	}
	return x.so.sortOf(t)
}

func (x *Exec) ghostMapInfo(gv *GhostVar) *ghostMap {
	t := x.eng.resolveType(x.eng.pkgByShort(gv.Pkg), gv.GoType)
	return x.eng.ghostMapInfoOfType(x, t)
}

