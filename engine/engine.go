package main

import (
	"fmt"
	"go/ast"
	"go/constant"
	"go/token"
	"go/types"
	"os"
	"path/filepath"
	"sort"
	"strings"

	"golang.org/x/tools/go/packages"
	"golang.org/x/tools/go/ssa"
)

// bseqType is the pseudo Go type of spec-level byte sequences (SMT sort BSeq).
var bseqType = types.NewNamed(types.NewTypeName(0, nil, "bseq", nil), types.Typ[types.Int], nil)

type ghostMap struct {
	KeySort string
	Elem    types.Type
}

type Engine struct {
	prog     *Program
	cs       *ContractSet
	fnWrites map[*ssa.Function]*writeSet
	errInits map[string]errInit
	errIDs   map[string]int
	globals  map[string]*ssa.Global // pkgpath.name
	globalInit map[string]ast.Expr
	globalPkg  map[string]*packages.Package
	mutatedGlobals map[string]string
	typeCache map[string]types.Type
	verbose  bool
	lockTouch map[*ssa.Function]int
}

func newEngine(prog *Program, trustedDir string) (*Engine, error) {
	e := &Engine{prog: prog, cs: newContractSet(), fnWrites: map[*ssa.Function]*writeSet{}, errInits: map[string]errInit{}, errIDs: map[string]int{},
		globals: map[string]*ssa.Global{}, globalInit: map[string]ast.Expr{}, globalPkg: map[string]*packages.Package{}, mutatedGlobals: map[string]string{}, typeCache: map[string]types.Type{}}
	var pkgs []string
	for p := range prog.ContractSrc {
		pkgs = append(pkgs, p)
	}
	sort.Strings(pkgs)
	for _, p := range pkgs {
		for _, blk := range prog.ContractSrc[p] {
			if err := parseContracts(e.cs, shortPkg(p), strings.TrimPrefix(blk.File, "/repo/"), blk.Line, blk.Text); err != nil {
				return nil, err
			}
		}
	}
	if trustedDir != "" {
		files, _ := filepath.Glob(filepath.Join(trustedDir, "*.spec"))
		sort.Strings(files)
		for _, f := range files {
			b, err := os.ReadFile(f)
			if err != nil {
				return nil, err
			}
			if err := parseContracts(e.cs, "klevdb", f, 1, string(b)); err != nil {
				return nil, err
			}
		}
	}
	for _, ei := range prog.collectErrorInits() {
		e.errInits[ei.Name] = ei
	}
	var names []string
	for n := range e.errInits {
		names = append(names, n)
	}
	sort.Strings(names)
	for i, n := range names {
		e.errIDs[n] = i + 1
	}
	// globals
	for _, sp := range prog.SSA.AllPackages() {
		for _, m := range sp.Members {
			if g, ok := m.(*ssa.Global); ok && sp.Pkg != nil {
				e.globals[sp.Pkg.Path()+"."+g.Name()] = g
			}
		}
	}
	for _, pk := range prog.Pkgs {
		if !strings.HasPrefix(pk.PkgPath, modPath) {
			continue
		}
		for _, f := range pk.Syntax {
			for _, d := range f.Decls {
				gd, ok := d.(*ast.GenDecl)
				if !ok || gd.Tok != token.VAR {
					continue
				}
				for _, sp := range gd.Specs {
					vs := sp.(*ast.ValueSpec)
					for i, nm := range vs.Names {
						if i < len(vs.Values) {
							e.globalInit[pk.PkgPath+"."+nm.Name] = vs.Values[i]
							e.globalPkg[pk.PkgPath+"."+nm.Name] = pk
						}
					}
				}
			}
		}
	}
	e.checkGlobalsImmutable()
	return e, nil
}

// checkGlobalsImmutable records every module global that is stored to outside init.
func (e *Engine) checkGlobalsImmutable() {
	for key, fn := range e.prog.Funcs {
		if fn.Name() == "init" || strings.HasPrefix(fn.Name(), "init#") {
			continue
		}
		for _, b := range fn.Blocks {
			for _, in := range b.Instrs {
				st, ok := in.(*ssa.Store)
				if !ok {
					continue
				}
				root := st.Addr
				for {
					switch u := root.(type) {
					case *ssa.FieldAddr:
						root = u.X
						continue
					case *ssa.IndexAddr:
						root = u.X
						continue
					}
					break
				}
				if g, ok := root.(*ssa.Global); ok {
					e.mutatedGlobals[g.Pkg.Pkg.Path()+"."+g.Name()] = key
				}
			}
		}
	}
}

func (e *Engine) pkgByShort(short string) *types.Package {
	if p := e.prog.TPkg[longPkg(short)]; p != nil {
		return p
	}
	// external packages are addressed by their package name (art, context, os, ...)
	var best *types.Package
	for path, p := range e.prog.TPkg {
		if p != nil && p.Name() == short && !strings.Contains(path, "internal") {
			if best == nil || len(path) < len(best.Path()) {
				best = p
			}
		}
	}
	return best
}

func (e *Engine) pkgForContract(fc *FuncContract) *types.Package {
	return e.pkgByShort(fc.Pkg)
}

func (e *Engine) importedPkg(from *types.Package, name string) *types.Package {
	for _, imp := range from.Imports() {
		if imp.Name() == name {
			return imp
		}
	}
	// allow well-known packages even when not imported by the package
	for path, p := range e.prog.TPkg {
		if p != nil && p.Name() == name && (strings.HasPrefix(path, modPath) || !strings.Contains(path, "/") || path == "encoding/binary" || path == "hash/crc32") {
			if strings.HasPrefix(path, modPath) {
				return p
			}
		}
	}
	for path, p := range e.prog.TPkg {
		if p != nil && p.Name() == name && !strings.Contains(path, "internal") {
			return p
		}
	}
	return nil
}

func (e *Engine) resolveType(pkg *types.Package, text string) types.Type {
	key := ""
	if pkg != nil {
		key = pkg.Path()
	}
	key += "|" + text
	if t, ok := e.typeCache[key]; ok {
		return t
	}
	t := e.resolveType0(pkg, text)
	e.typeCache[key] = t
	return t
}

func (e *Engine) resolveType0(pkg *types.Package, text string) types.Type {
	switch {
	case strings.HasPrefix(text, "*"):
		return types.NewPointer(e.resolveType(pkg, text[1:]))
	case strings.HasPrefix(text, "[]"):
		return types.NewSlice(e.resolveType(pkg, text[2:]))
	case strings.HasPrefix(text, "map["):
		depth := 0
		for i := 3; i < len(text); i++ {
			if text[i] == '[' {
				depth++
			} else if text[i] == ']' {
				depth--
				if depth == 0 {
					return types.NewMap(e.resolveType(pkg, text[4:i]), e.resolveType(pkg, text[i+1:]))
				}
			}
		}
	case text == "struct{}":
		return types.NewStruct(nil, nil)
	case text == "error":
		return types.Universe.Lookup("error").Type()
	case text == "bseq":
		return bseqType
	}
	if obj := types.Universe.Lookup(text); obj != nil {
		if tn, ok := obj.(*types.TypeName); ok {
			return tn.Type()
		}
	}
	if i := strings.Index(text, "."); i >= 0 {
		p := e.importedPkg(pkg, text[:i])
		if p == nil {
			panic(unsupported{fmt.Sprintf("unknown package in type %s", text)})
		}
		obj := p.Scope().Lookup(text[i+1:])
		if tn, ok := obj.(*types.TypeName); ok {
			return tn.Type()
		}
		panic(unsupported{fmt.Sprintf("unknown type %s", text)})
	}
	if pkg != nil {
		if tn, ok := pkg.Scope().Lookup(text).(*types.TypeName); ok {
			return tn.Type()
		}
	}
	panic(unsupported{fmt.Sprintf("unknown type %q", text)})
}

func (e *Engine) timeType() types.Type {
	return e.prog.TPkg["time"].Scope().Lookup("Time").Type()
}

func (e *Engine) globalOf(v *types.Var) *ssa.Global {
	if v.Pkg() == nil {
		return nil
	}
	return e.globals[v.Pkg().Path()+"."+v.Name()]
}

// ---- ghost fields ----

func (e *Engine) ghostField(si *structInfo, name string) *GhostField {
	if si.Named == nil {
		return nil
	}
	for i := range e.cs.GFields {
		gf := &e.cs.GFields[i]
		if gf.Type == si.Named.Obj().Name() && gf.Name == name && longPkg(gf.Pkg) == si.Named.Obj().Pkg().Path() {
			return gf
		}
	}
	return nil
}

func (x *Exec) ghostFieldKey(si *structInfo, gf *GhostField) (key, srt string, t types.Type) {
	t = x.eng.resolveType(x.eng.pkgByShort(gf.Pkg), gf.GoType)
	srt = "(Array Int " + x.ghostSort(t) + ")"
	key = "F:" + si.Sort + "." + gf.Name
	return
}

func (x *Exec) zeroGhostFields(st *State, si *structInfo, ref Term) {
	// ghost fields of fresh objects are unconstrained (set by contracts)
}

func (x *Exec) fieldKeyOrGhost(si *structInfo, fi int, name string) (string, string) {
	if fi >= 0 {
		return x.fieldKey(si, fi)
	}
	gf := x.eng.ghostField(si, name)
	k, s, _ := x.ghostFieldKey(si, gf)
	x.heapBase(k, s)
	return k, s
}

// lookupTypeField resolves TypeName.field for whole-field assigns.
func (e *Engine) lookupTypeField(x *Exec, pkg *types.Package, typeName, field string) (*structInfo, int) {
	if pkg == nil {
		return nil, 0
	}
	tn, ok := pkg.Scope().Lookup(typeName).(*types.TypeName)
	if !ok {
		return nil, 0
	}
	si := x.so.structOf(tn.Type())
	if si == nil {
		return nil, 0
	}
	for i, f := range si.Fields {
		if f.Name == field {
			return si, i
		}
	}
	if e.ghostField(si, field) != nil {
		return si, -1
	}
	return nil, 0
}

func (e *Engine) ghostMapInfoOfType(x *Exec, t types.Type) *ghostMap {
	if t == nil {
		return nil
	}
	if mt, ok := under(t).(*types.Map); ok {
		return &ghostMap{KeySort: x.so.sortOf(mt.Key()), Elem: mt.Elem()}
	}
	return nil
}

// assignKeys: heap keys a contract may write (for loop havoc), type based.
func (e *Engine) assignKeys(x *Exec, fc *FuncContract) ([]string, bool) {
	var keys []string
	all := false
	pkg := e.pkgForContract(fc)
	for _, a := range fc.Assigns {
		switch t := a.(type) {
		case *CIdent:
			if t.Name == "all" {
				all = true
			} else if gv, ok := e.cs.GVars[t.Name]; ok {
				k, _ := x.ghostVarKey(gv)
				keys = append(keys, k)
			}
		case *CSel:
			if q, ok := t.X.(*CSel); ok {
				if pid, ok := q.X.(*CIdent); ok {
					if pk := e.importedPkg(pkg, pid.Name); pk != nil {
						if si, fi := e.lookupTypeField(x, pk, q.Name, t.Name); si != nil {
							k, _ := x.fieldKeyOrGhost(si, fi, t.Name)
							keys = append(keys, k)
							continue
						}
					}
				}
			}
			if id, ok := t.X.(*CIdent); ok {
				if si, fi := e.lookupTypeField(x, pkg, id.Name, t.Name); si != nil {
					k, _ := x.fieldKeyOrGhost(si, fi, t.Name)
					keys = append(keys, k)
					continue
				}
			}
			// expr.field: need the static type of expr; resolve through the function signature
			if ty := e.staticTypeOf(x, fc, t.X); ty != nil {
				if pt, ok := under(ty).(*types.Pointer); ok {
					if si := x.so.structOf(pt.Elem()); si != nil {
						found := false
						for i, f := range si.Fields {
							if f.Name == t.Name {
								k, _ := x.fieldKey(si, i)
								keys = append(keys, k)
								found = true
							}
						}
						if !found && e.ghostField(si, t.Name) != nil {
							k, _ := x.fieldKeyOrGhost(si, -1, t.Name)
							keys = append(keys, k)
							found = true
						}
						if found {
							continue
						}
					}
				}
			}
			all = true
		case *CUn:
			if ty := e.staticTypeOf(x, fc, t.X); ty != nil {
				if pt, ok := under(ty).(*types.Pointer); ok {
					if si := x.so.structOf(pt.Elem()); si != nil {
						for i := range si.Fields {
							k, _ := x.fieldKey(si, i)
							keys = append(keys, k)
						}
					} else {
						k, _ := x.derefKey(pt.Elem())
						keys = append(keys, k)
					}
					continue
				}
			}
			all = true
		case *CCall:
			if id, ok := t.Fun.(*CIdent); ok && id.Name == "elems" {
				if ty := e.staticTypeOf(x, fc, t.Args[0]); ty != nil {
					if slt, ok := under(ty).(*types.Slice); ok {
						k, _ := x.elemKey(slt.Elem())
						keys = append(keys, k)
						continue
					}
				}
			}
			all = true
		default:
			all = true
		}
	}
	return keys, all
}

// staticTypeOf gives the Go type of a simple contract expression (identifier
// or selector chain) from the signature of the function under contract.
func (e *Engine) staticTypeOf(x *Exec, fc *FuncContract, ex CExpr) types.Type {
	sig, recvName := e.signatureOf(fc)
	if sig == nil {
		return nil
	}
	var rec func(ex CExpr) types.Type
	rec = func(ex CExpr) types.Type {
		switch t := ex.(type) {
		case *CIdent:
			if t.Name == recvName && sig.Recv() != nil {
				return sig.Recv().Type()
			}
			if t.Name == "self" && fc.Kind != "func" {
				return e.ownerType(fc)
			}
			for i := 0; i < sig.Params().Len(); i++ {
				n := sig.Params().At(i).Name()
				if i < len(fc.Params)-boolInt(fc.Kind != "func" || sig.Recv() != nil) {
				}
				if n == t.Name {
					return sig.Params().At(i).Type()
				}
			}
			// explicit names
			off := 0
			if fc.Kind != "func" {
				off = 1
			}
			for i, n := range fc.Params {
				if n == t.Name && i-off >= 0 && i-off < sig.Params().Len() {
					return sig.Params().At(i - off).Type()
				}
			}
			for i := 0; i < sig.Results().Len(); i++ {
				if sig.Results().At(i).Name() == t.Name || fmt.Sprintf("ret%d", i) == t.Name {
					return sig.Results().At(i).Type()
				}
			}
		case *CSel:
			bt := rec(t.X)
			if bt == nil {
				return nil
			}
			u := under(bt)
			if pt, ok := u.(*types.Pointer); ok {
				u = under(pt.Elem())
			}
			if st, ok := u.(*types.Struct); ok {
				for i := 0; i < st.NumFields(); i++ {
					if st.Field(i).Name() == t.Name {
						return st.Field(i).Type()
					}
				}
			}
		}
		return nil
	}
	return rec(ex)
}

func boolInt(b bool) int {
	if b {
		return 1
	}
	return 0
}

func (e *Engine) signatureOf(fc *FuncContract) (*types.Signature, string) {
	switch fc.Kind {
	case "func":
		fn := e.prog.Funcs[fc.Key]
		if fn == nil {
			return nil, ""
		}
		rn := ""
		if fn.Signature.Recv() != nil && len(fn.Params) > 0 {
			rn = fn.Params[0].Name()
		}
		return fn.Signature, rn
	case "iface":
		parts := strings.Split(fc.Key, ".")
		pk := e.pkgByShort(parts[0])
		if pk == nil {
			return nil, ""
		}
		tn, ok := pk.Scope().Lookup(parts[1]).(*types.TypeName)
		if !ok {
			return nil, ""
		}
		m, _, _ := types.LookupFieldOrMethod(tn.Type(), false, pk, parts[2])
		if f, ok := m.(*types.Func); ok {
			return f.Type().(*types.Signature), ""
		}
	case "field":
		parts := strings.Split(fc.Key, ".")
		pk := e.pkgByShort(parts[0])
		if pk == nil {
			return nil, ""
		}
		tn, ok := pk.Scope().Lookup(parts[1]).(*types.TypeName)
		if !ok {
			return nil, ""
		}
		st := tn.Type().Underlying().(*types.Struct)
		for i := 0; i < st.NumFields(); i++ {
			if st.Field(i).Name() == parts[2] {
				if sg, ok := st.Field(i).Type().Underlying().(*types.Signature); ok {
					return sg, ""
				}
			}
		}
	}
	return nil, ""
}

func (e *Engine) ownerType(fc *FuncContract) types.Type {
	parts := strings.Split(fc.Key, ".")
	if len(parts) < 3 {
		return nil
	}
	pk := e.pkgByShort(parts[0])
	if pk == nil {
		return nil
	}
	tn, ok := pk.Scope().Lookup(parts[1]).(*types.TypeName)
	if !ok {
		return nil
	}
	if fc.Kind == "field" {
		return types.NewPointer(tn.Type())
	}
	return tn.Type()
}

// ---- globals ----

func (e *Engine) noteGlobalRegion(x *Exec, reg Term) {
	for _, r := range x.globalRegions {
		if r == reg {
			return
		}
	}
	for _, r := range x.globalRegions {
		x.sc.assert(not(eq(r, reg)))
	}
	x.globalRegions = append(x.globalRegions, reg)
}

// globalValue returns the immutable value of a global if it is known.
func (e *Engine) globalValue(x *Exec, g *ssa.Global) (Val, bool) {
	et := g.Type().(*types.Pointer).Elem()
	name := g.Pkg.Pkg.Path() + "." + g.Name()
	if isErrorType(et) {
		return Val{T: et, S: x.errConst(name)}, true
	}
	if _, mutated := e.mutatedGlobals[name]; mutated {
		return Val{}, false
	}
	if t, ok := x.globalVals[name]; ok {
		return Val{T: et, S: t}, t != ""
	}
	x.globalVals[name] = "" // recursion guard
	init, ok := e.globalInit[name]
	if !ok {
		return Val{}, false
	}
	pk := e.globalPkg[name]
	t, ok := e.evalInit(x, pk, init, et)
	if !ok {
		return Val{}, false
	}
	x.globalVals[name] = t
	return Val{T: et, S: t}, true
}

func (e *Engine) evalInit(x *Exec, pk *packages.Package, ex ast.Expr, want types.Type) (Term, bool) {
	if tv, ok := pk.TypesInfo.Types[ex]; ok && tv.Value != nil {
		switch tv.Value.Kind() {
		case constant.Int:
			return tv.Value.ExactString(), true
		case constant.Bool:
			if constant.BoolVal(tv.Value) {
				return "true", true
			}
			return "false", true
		case constant.String:
			return x.so.strConst(constant.StringVal(tv.Value)), true
		}
		return "", false
	}
	switch v := ex.(type) {
	case *ast.CompositeLit:
		tv := pk.TypesInfo.Types[v]
		si := x.so.structOf(tv.Type)
		if si == nil {
			return "", false
		}
		args := make([]Term, len(si.Fields))
		for i, f := range si.Fields {
			args[i] = x.so.zero(f.T)
		}
		for i, el := range v.Elts {
			idx := i
			val := el
			if kv, ok := el.(*ast.KeyValueExpr); ok {
				name := kv.Key.(*ast.Ident).Name
				idx = -1
				for j, f := range si.Fields {
					if f.Name == name {
						idx = j
					}
				}
				val = kv.Value
			}
			if idx < 0 {
				return "", false
			}
			t, ok := e.evalInit(x, pk, val, si.Fields[idx].T)
			if !ok {
				return "", false
			}
			args[idx] = t
		}
		if len(args) == 0 {
			return "mk_" + si.Sort, true
		}
		return "(mk_" + si.Sort + " " + strings.Join(args, " ") + ")", true
	case *ast.Ident, *ast.SelectorExpr:
		obj := identObj(pk, v)
		if vr, ok := obj.(*types.Var); ok {
			if g := e.globalOf(vr); g != nil {
				r, ok := e.globalValue(x, g)
				return r.S, ok
			}
		}
	case *ast.CallExpr:
		// conversions like byte(1)
		if len(v.Args) == 1 {
			if tv, ok := pk.TypesInfo.Types[v.Fun]; ok && tv.IsType() {
				return e.evalInit(x, pk, v.Args[0], want)
			}
		}
	}
	return "", false
}

// errConst declares a sentinel error constant with its wrap axioms.
func (x *Exec) errConst(name string) Term {
	c := "err_" + sanitize(strings.TrimPrefix(strings.TrimPrefix(name, modPath+"/pkg/"), modPath+"."))
	if x.sc.declared["c:"+c] {
		return c
	}
	x.sc.declConst(c, "Err")
	x.sc.declFun("errId", []string{"Err"}, "Int")
	ei, known := x.eng.errInits[name]
	id := x.eng.errIDs[name]
	if alias, ok := map[string]string{"os.ErrNotExist": "io/fs.ErrNotExist", "os.ErrExist": "io/fs.ErrExist", "os.ErrPermission": "io/fs.ErrPermission", "os.ErrClosed": "io/fs.ErrClosed"}[name]; ok {
		x.sc.assert(eq(c, x.errConst(alias)))
		return c
	}
	if !known {
		// external sentinel (io.EOF, os.ErrNotExist, ...): a root error
		x.extErrN++
		id = 1000 + extErrID(name)
		ei = errInit{Name: name, Kind: "new"}
		x.trustedUsed["sentinel "+name+" is a root error distinct from all others"] = true
	}
	if ei.Kind == "alias" && len(ei.Wraps) == 1 {
		x.sc.assert(eq(c, x.errConst(ei.Wraps[0])))
		return c
	}
	x.sc.assert(eq(app("errId", c), fmt.Sprint(id)))
	x.sc.assert(eq(app("errId", "nilErr"), "0"))
	var alts []Term
	alts = append(alts, eq("t", c))
	for _, w := range ei.Wraps {
		alts = append(alts, app("wraps", x.errConst(w), "t"))
	}
	if ei.Kind == "other" {
		// unknown initialiser: only reflexivity is known
		return c
	}
	x.sc.assert(fmt.Sprintf("(forall ((t Err)) (! (= (wraps %s t) %s) :pattern ((wraps %s t))))", c, or(alts...), c))
	return c
}

func extErrID(name string) int {
	h := 0
	for _, c := range name {
		h = (h*31 + int(c)) % 100000
	}
	return h
}

// freshErr models fmt.Errorf / errors.New results: a new non-nil error that
// wraps exactly the given errors.
func (x *Exec) freshErr(wrapped []Term) Term {
	x.errN++
	c := x.sc.freshConst("ferr", "Err")
	x.sc.declFun("errId", []string{"Err"}, "Int")
	x.sc.assert(eq(app("errId", c), intLit(int64(-x.errN))))
	x.sc.assert(eq(app("errId", "nilErr"), "0"))
	alts := []Term{eq("t", c)}
	for _, w := range wrapped {
		alts = append(alts, and(not(eq(w, "nilErr")), app("wraps", w, "t")))
	}
	x.sc.assert(fmt.Sprintf("(forall ((t Err)) (! (= (wraps %s t) %s) :pattern ((wraps %s t))))", c, or(alts...), c))
	return c
}

// ---- spec function axioms ----

func (e *Engine) specAxioms(x *Exec, sd *SpecDecl) {
	if x.specDone[sd.Name] {
		return
	}
	x.specDone[sd.Name] = true
	if len(sd.Axioms) == 0 {
		return
	}
	pk := e.pkgByShort(sd.Pkg)
	for _, ax := range sd.Axioms {
		// quantify over parameters; slices become (array, off, len) triples bound to a
		// synthetic slice in a private region.
		var binders []string
		env := &Env{vars: map[string]Val{}, cur: newState(), old: newState(), pkg: pk, x: x}
		var callArgs []CExpr
		st := newState()
		var guards []Term
		for _, p := range sd.Params {
			pt := e.resolveType(pk, p.Type)
			x.qn++
			n := fmt.Sprintf("%s_a%d", p.Name, x.qn)
			if slt, ok := under(pt).(*types.Slice); ok {
				key, srt := x.elemKey(slt.Elem())
				es := x.so.sortOf(slt.Elem())
				arr, off, ln := n+"_arr", n+"_off", n+"_len"
				binders = append(binders, fmt.Sprintf("(%s (Array Int %s))", arr, es), fmt.Sprintf("(%s Int)", off), fmt.Sprintf("(%s Int)", ln))
				// synthetic heap: region 1.. maps to arr
				reg := fmt.Sprint(len(binders) + 1000)
				h := x.heapGet(st, key, srt)
				st.heap[key] = store(h, reg, arr)
				env.vars[p.Name] = Val{T: pt, S: fmt.Sprintf("(mk_slice %s %s %s %s)", reg, off, ln, ln)}
				guards = append(guards, le("0", ln))
			} else if _, isMap := under(pt).(*types.Map); isMap {
				binders = append(binders, fmt.Sprintf("(%s %s)", n, x.ghostSort(pt)))
				env.vars[p.Name] = Val{T: pt, S: n, GM: e.ghostMapInfoOfType(x, pt)}
			} else {
				binders = append(binders, fmt.Sprintf("(%s %s)", n, x.so.sortOf(pt)))
				env.vars[p.Name] = Val{T: pt, S: n}
			}
			callArgs = append(callArgs, &CIdent{p.Name})
		}
		env.cur = st
		env.old = st
		res := x.specApp(sd, callArgs, env)
		env.vars["result"] = res
		body := x.trBool(ax.Expr, env)
		x.sc.assert(fmt.Sprintf("(forall (%s) (! %s :pattern (%s)))", strings.Join(binders, " "), implies(and(guards...), body), res.S))
	}
}
