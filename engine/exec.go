package main

import (
	"fmt"
	"os"
	"go/constant"
	"go/token"
	"go/types"
	"sort"
	"strings"

	"golang.org/x/tools/go/ssa"
)

// ---------------- values, locations, state ----------------

type Val struct {
	T    types.Type
	S    Term   // scalar term of sort sortOf(T); pointers to heap objects are Int refs
	L    *Loc   // pointer represented as a static location (then S == "")
	Tup  []Val  // tuple value
	Fn   *ssa.Function // statically known function value
	Bind []Val  // closure bindings
	Recv *Val   // bound receiver of a method value
	GM   *ghostMap // ghost total map / set (S is an SMT array)
}

const (
	lCell = iota
	lField
	lElem
	lGlobal
	lDeref
)

type pstep struct {
	Field int
	SI    *structInfo
}

type Loc struct {
	Kind   int
	Cell   int
	Ref    Term
	Key    string
	Region Term
	Index  Term
	Path   []pstep
	RootT  types.Type // type of the value stored at the root
	T      types.Type // type of the value at this location (after Path)
	// for array-typed locations: region holding the elements
	ArrRegion Term
	ArrLen    int64
}

type State struct {
	heap  map[string]Term
	cells map[int]Term
	epoch int
}

func newState() *State { return &State{heap: map[string]Term{}, cells: map[int]Term{}} }
func (s *State) clone() *State {
	n := newState()
	n.epoch = s.epoch
	for k, v := range s.heap {
		n.heap[k] = v
	}
	for k, v := range s.cells {
		n.cells[k] = v
	}
	return n
}

// Exec is the symbolic executor for one top-level function (with inlined callees).
type Exec struct {
	bindSeen map[string]bool
	eng   *Engine
	sc    *Script
	so    *Sorts
	fnKey string
	top   *ssa.Function
	fc    *FuncContract

	heapSort map[string]string // heap key -> SMT sort of the array/value
	cellN    int
	cellT    map[int]types.Type
	allocN   int
	allocBase Term
	old      *State // pre-state of the top-level function
	depth    int
	callSeq  map[string]int
	lockMode bool
	errN     int
	notedAssumed map[string]bool
	calleesUsed  map[string]bool
	trustedUsed  map[string]bool
	curPos   token.Pos
	loopCtx  []string
	flags    map[string]bool
	epoch    int
	cellSort map[int]string
	cellZeroT map[int]Term
	ranges   map[*ssa.Range]*rangeState
	globalVals map[string]Term
	specDone map[string]bool
	keyType  map[string]types.Type
	allocBase0 Term
	qn       int
	extErrN  int
	globalRegions []Term
	curCall  *ssa.CallCommon
	entryEnv *Env
	lockIDs  map[string]int
	fnIDs    map[string]bool // identities of function values used in this script (pairwise distinct)
	curArgs  []Val // arguments of the call being executed
	curReach Term // reach condition of the instruction being executed: path facts are assumed under it
	curBlock *ssa.BasicBlock
	curIdx   int
	only     []string
	pendingClosure [][2]string
	against  bool
}

func (x *Exec) posStr(p token.Pos) string {
	if !p.IsValid() {
		p = x.curPos
	}
	if !p.IsValid() {
		return ""
	}
	ps := x.eng.prog.Fset.Position(p)
	return fmt.Sprintf("%s:%d", strings.TrimPrefix(ps.Filename, "/repo/"), ps.Line)
}

// heapGet returns the current term of a heap key, creating the base constant on demand.
func (x *Exec) heapGet(st *State, key, sort string) Term {
	if t, ok := st.heap[key]; ok {
		return t
	}
	base := x.heapBase(key, sort)
	if st.epoch > 0 && !strings.HasPrefix(key, "G:") {
		return x.sc.declConst(fmt.Sprintf("H%d_%s", st.epoch, sanitize(key)), x.heapSort[key])
	}
	return base
}

func (x *Exec) heapBase(key, sort string) Term {
	if s, ok := x.heapSort[key]; ok && s != sort && sort != "" {
		panic(fmt.Sprintf("heap key %s used at sorts %s and %s", key, s, sort))
	}
	name := "H0_" + sanitize(key)
	if _, ok := x.heapSort[key]; !ok {
		x.heapSort[key] = sort
		x.sc.declConst(name, sort)
	}
	return name
}

func (x *Exec) fieldKey(si *structInfo, i int) (string, string) {
	f := si.Fields[i]
	k, s := "F:"+si.Sort+"."+f.Name, "(Array Int "+f.Sort+")"
	if _, ok := x.heapSort[k]; !ok {
		x.keyType[k] = f.T
		x.closure(k, x.heapBase(k, s), "allocBase0")
	}
	return k, s
}
func (x *Exec) elemKey(elemT types.Type) (string, string) {
	s := x.so.sortOf(elemT)
	k, srt := "E:"+s, "(Array Int (Array Int "+s+"))"
	if _, ok := x.heapSort[k]; !ok {
		if s == "Int" {
			// shared by all int-like element types incl. pointers: element values of pointer slices lie
			// below the frontier as well, but ints are unconstrained: no closure fact for this key
		}
		x.heapBase(k, srt)
	}
	return k, srt
}

// closure: every reference stored in heap array arr (a version of key) refers to an object
// allocated before `top`.
func (x *Exec) closure(key string, arr Term, top Term) {
	t := x.keyType[key]
	if t == nil || !strings.HasPrefix(key, "F:") {
		return
	}
	switch under(t).(type) {
	case *types.Pointer, *types.Map, *types.Chan:
		// only ALLOCATED objects (r <= top) are constrained: the content of unallocated references is
		// arbitrary (a callee may return a fresh object whose fields point to other fresh objects)
		x.sc.assert(fmt.Sprintf("(forall ((r Int)) (! (=> (<= r %s) (<= (select %s r) %s)) :pattern ((select %s r))))", top, arr, top, arr))
	case *types.Slice:
		x.sc.assert(fmt.Sprintf("(forall ((r Int)) (! (=> (<= r %s) (<= (s_reg (select %s r)) %s)) :pattern ((select %s r))))", top, arr, top, arr))
	case *types.Interface:
		if !isErrorType(t) {
			x.sc.assert(fmt.Sprintf("(forall ((r Int)) (! (=> (<= r %s) (<= (i_val (select %s r)) %s)) :pattern ((select %s r))))", top, arr, top, arr))
		}
	}
}
func (x *Exec) derefKey(t types.Type) (string, string) {
	s := x.so.sortOf(t)
	k, srt := "D:"+s, "(Array Int "+s+")"
	x.heapBase(k, srt)
	return k, srt
}

func (x *Exec) freshRef() Term {
	x.allocN++
	return fmt.Sprintf("(+ %s %d)", x.allocBase, x.allocN)
}

func (x *Exec) newCell(t types.Type) int {
	x.cellN++
	x.cellT[x.cellN] = t
	return x.cellN
}

// load reads the value at location l in state st.
func (x *Exec) load(st *State, l *Loc) Val {
	root := x.loadRoot(st, l)
	for _, p := range l.Path {
		root = app(p.SI.Fields[p.Field].Sel, root)
	}
	if at, ok := under(l.T).(*types.Array); ok {
		_ = at
		// array values are represented by their region id
		return Val{T: l.T, S: l.ArrRegion}
	}
	v := Val{T: l.T, S: root}
	return v
}

func (x *Exec) loadRoot(st *State, l *Loc) Term {
	switch l.Kind {
	case lCell:
		if t, ok := st.cells[l.Cell]; ok {
			return t
		}
		return x.cellZero(l.Cell)
	case lField, lDeref:
		return sel(x.heapGet(st, l.Key, x.heapSort[l.Key]), l.Ref)
	case lElem:
		return sel(sel(x.heapGet(st, l.Key, x.heapSort[l.Key]), l.Region), l.Index)
	case lGlobal:
		// a package-level variable that is never assigned after init and whose initialiser can be evaluated
		// has that value (the same rule as for a direct load of the variable)
		if g := x.eng.globals[strings.TrimPrefix(l.Key, "G:")]; g != nil && x.top != nil && x.top.Name() != "init" {
			if v, ok := x.eng.globalValue(x, g); ok && v.S != "" {
				return v.S
			}
		}
		return x.heapGet(st, l.Key, x.heapSort[l.Key])
	}
	panic("bad loc")
}

func (x *Exec) updPath(root Term, path []pstep, v Term) Term {
	if len(path) == 0 {
		return v
	}
	p := path[0]
	var args []string
	for j, f := range p.SI.Fields {
		cur := app(f.Sel, root)
		if j == p.Field {
			args = append(args, x.updPath(cur, path[1:], v))
		} else {
			args = append(args, cur)
		}
	}
	return "(mk_" + p.SI.Sort + " " + strings.Join(args, " ") + ")"
}

// storeLoc writes v at l, returning nothing; st is mutated.
func (x *Exec) storeLoc(st *State, l *Loc, v Term) {
	nv := v
	if len(l.Path) > 0 {
		nv = x.updPath(x.loadRoot(st, l), l.Path, v)
	}
	switch l.Kind {
	case lCell:
		st.cells[l.Cell] = nv
	case lField, lDeref:
		h := x.heapGet(st, l.Key, x.heapSort[l.Key])
		st.heap[l.Key] = x.name("h", x.heapSort[l.Key], store(h, l.Ref, nv))
	case lElem:
		h := x.heapGet(st, l.Key, x.heapSort[l.Key])
		st.heap[l.Key] = x.name("h", x.heapSort[l.Key], store(h, l.Region, store(sel(h, l.Region), l.Index, nv)))
	case lGlobal:
		st.heap[l.Key] = nv
	}
}

// name introduces a constant equal to a (possibly large) term to keep terms small.
func (x *Exec) name(prefix, sort string, t Term) Term {
	if len(t) < 60 {
		return t
	}
	c := x.sc.freshConst(prefix, sort)
	x.sc.assert(eq(c, t))
	return c
}

// locOfPointer turns a pointer value to a struct into a location of one of its fields.
func (x *Exec) fieldLoc(base Val, field int) *Loc {
	pt := under(base.T).(*types.Pointer)
	si := x.so.structOf(pt.Elem())
	if si == nil {
		panic(fmt.Sprintf("fieldLoc: not a struct pointer: %s", base.T))
	}
	ft := si.Fields[field].T
	if base.L != nil {
		l := *base.L
		l.Path = append(append([]pstep{}, base.L.Path...), pstep{field, si})
		l.T = ft
		x.arrayInfo(&l)
		return &l
	}
	key, srt := x.fieldKey(si, field)
	x.heapBase(key, srt)
	l := &Loc{Kind: lField, Ref: base.S, Key: key, RootT: ft, T: ft}
	x.arrayInfo(l)
	return l
}

func (x *Exec) arrayInfo(l *Loc) {
	if at, ok := under(l.T).(*types.Array); ok {
		// arrays nested in structs are not supported except as opaque values
		l.ArrLen = at.Len()
		if l.ArrRegion == "" {
			l.ArrRegion = "0"
		}
	}
}

// ---------------- engine-level declarations ----------------

type edge struct {
	cond Term
	st   *State
	from int
}

type deferRec struct {
	call  *ssa.Defer
	guard Term
	fr    *Frame
}

type Frame struct {
	fn      *ssa.Function
	vals    map[ssa.Value]Val
	cells   map[*ssa.Alloc]*Loc
	defers  []deferRec
	in      map[int][]edge
	reach   map[int]Term
	rets    []retRec
	isTop   bool
	loops   map[int]*loopInfo // by header block index
	parent  *Frame
	free    []Val
	callPos token.Pos
}

type retRec struct {
	cond Term
	st   *State
	vals []Val
	pos  token.Pos
}

type loopInfo struct {
	header   *ssa.BasicBlock
	n        int
	body     map[int]bool
	contract *LoopContract
	// bound at header
	phiVals   map[*ssa.Phi]Val
	variant0  Term
	headState *State
	headReach Term
	env       *Env
}

func constVal(x *Exec, c *ssa.Const) Val {
	t := c.Type()
	if c.Value == nil {
		return Val{T: t, S: x.so.zero(t)}
	}
	switch c.Value.Kind() {
	case constant.Bool:
		if constant.BoolVal(c.Value) {
			return Val{T: t, S: "true"}
		}
		return Val{T: t, S: "false"}
	case constant.Int:
		if v, ok := constant.Int64Val(c.Value); ok {
			return Val{T: t, S: intLit(v)}
		}
		if v, ok := constant.Uint64Val(c.Value); ok {
			return Val{T: t, S: uintLit(v)}
		}
		return Val{T: t, S: c.Value.ExactString()}
	case constant.String:
		return Val{T: t, S: x.so.strConst(constant.StringVal(c.Value))}
	case constant.Float:
		return Val{T: t, S: "0.0"}
	}
	return Val{T: t, S: x.so.zero(t)}
}

func (x *Exec) val(fr *Frame, v ssa.Value) Val {
	switch u := v.(type) {
	case *ssa.Const:
		return constVal(x, u)
	case *ssa.Global:
		return x.globalPtr(u)
	case *ssa.Function:
		return Val{T: u.Type(), Fn: u, S: x.funcID(u)}
	case *ssa.Builtin:
		return Val{T: u.Type()}
	case *ssa.FreeVar:
		for i, fv := range fr.fn.FreeVars {
			if fv == u {
				return fr.free[i]
			}
		}
	}
	if r, ok := fr.vals[v]; ok {
		return r
	}
	panic(fmt.Sprintf("%s: no value for %s (%T) in %s", x.fnKey, v.Name(), v, fr.fn.Name()))
}

func (x *Exec) funcID(f *ssa.Function) Term {
	return x.funcIDByKey(funcKey(f))
}

// funcIDByKey: the identity of a function value (closures and bound methods are identified by their code)
func (x *Exec) funcIDByKey(key string) Term {
	name := "fn_" + sanitize(key)
	x.sc.declConst(name, "Int")
	if x.fnIDs == nil {
		x.fnIDs = map[string]bool{}
	}
	x.fnIDs[name] = true
	return name
}

func (x *Exec) globalPtr(g *ssa.Global) Val {
	et := g.Type().(*types.Pointer).Elem()
	key := "G:" + g.Pkg.Pkg.Path() + "." + g.Name()
	l := &Loc{Kind: lGlobal, Key: key, RootT: et, T: et}
	if at, ok := under(et).(*types.Array); ok {
		l.ArrLen = at.Len()
		l.ArrRegion = x.sc.declConst("greg_"+sanitize(g.Pkg.Pkg.Path()+"."+g.Name()), "Int")
		x.sc.assert(fmt.Sprintf("(and (> %s 0) (< %s %s))", l.ArrRegion, l.ArrRegion, x.allocBase))
		x.eng.noteGlobalRegion(x, l.ArrRegion)
	} else {
		x.heapBase(key, x.so.sortOf(et))
	}
	return Val{T: g.Type(), L: l}
}

// ---------------- running a function ----------------

type unsupported struct{ msg string }

// bindFail reports a clause that cannot be connected to the code any more (the program point, call, return or
// local variable it names is gone): a failed obligation `bind:<label>` with goal false, so that the rest of the
// unit is still verified and the report names the clause.
func (x *Exec) bindFail(label, msg string, pos token.Pos) {
	if x.bindSeen == nil {
		x.bindSeen = map[string]bool{}
	}
	if x.bindSeen[label+"|"+msg] {
		return
	}
	x.bindSeen[label+"|"+msg] = true
	x.oblige("bind", label, "false", pos, msg)
}

// trClause translates a contract clause at a program point; a clause that names a local variable not in scope there
// is reported by bindFail and treated as absent (ok = false).
func (x *Exec) trClause(label, text string, e CExpr, env *Env, pos token.Pos) (t Term, ok bool) {
	defer func() {
		if r := recover(); r != nil {
			if u, isU := r.(unsupported); isU && strings.Contains(u.msg, "unknown identifier") {
				x.bindFail(label, "clause cannot be evaluated at its program point ("+u.msg+"): "+strings.Join(strings.Fields(text), " "), pos)
				t, ok = "true", false
				return
			}
			panic(r)
		}
	}()
	return x.trBool(e, env), true
}

func (x *Exec) fail(format string, a ...any) {
	panic(unsupported{fmt.Sprintf(format, a...)})
}

// rpo computes reverse post-order of blocks ignoring back edges.
func rpo(fn *ssa.Function) ([]*ssa.BasicBlock, map[[2]int]bool) {
	back := map[[2]int]bool{}
	var order []*ssa.BasicBlock
	state := map[int]int{}
	var dfs func(b *ssa.BasicBlock)
	dfs = func(b *ssa.BasicBlock) {
		state[b.Index] = 1
		for _, s := range b.Succs {
			switch state[s.Index] {
			case 0:
				dfs(s)
			case 1:
				back[[2]int{b.Index, s.Index}] = true
			}
		}
		state[b.Index] = 2
		order = append(order, b)
	}
	dfs(fn.Blocks[0])
	for i, j := 0, len(order)-1; i < j; i, j = i+1, j-1 {
		order[i], order[j] = order[j], order[i]
	}
	return order, back
}

func findLoops(fn *ssa.Function, back map[[2]int]bool) map[int]*loopInfo {
	loops := map[int]*loopInfo{}
	for e := range back {
		h := fn.Blocks[e[1]]
		li := loops[h.Index]
		if li == nil {
			li = &loopInfo{header: h, body: map[int]bool{h.Index: true}}
			loops[h.Index] = li
		}
		// natural loop: nodes that reach e[0] without passing h
		var stack []int
		if !li.body[e[0]] {
			li.body[e[0]] = true
			stack = append(stack, e[0])
		}
		for len(stack) > 0 {
			n := stack[len(stack)-1]
			stack = stack[:len(stack)-1]
			for _, p := range fn.Blocks[n].Preds {
				if !li.body[p.Index] {
					li.body[p.Index] = true
					stack = append(stack, p.Index)
				}
			}
		}
	}
	// number loops by header block index (source order)
	var hs []int
	for h := range loops {
		hs = append(hs, h)
	}
	sort.Ints(hs)
	for i, h := range hs {
		loops[h].n = i + 1
	}
	return loops
}

// run executes fn with the given arguments from state st under reach condition.
// It returns the merged results, state and the condition under which the call returns.
func (x *Exec) run(fn *ssa.Function, args []Val, free []Val, st *State, reach Term, top bool, callPos token.Pos) ([]Val, *State, Term) {
	if fn.Blocks == nil {
		x.fail("function %s has no body", funcKey(fn))
	}
	fr := &Frame{fn: fn, vals: map[ssa.Value]Val{}, cells: map[*ssa.Alloc]*Loc{}, in: map[int][]edge{}, reach: map[int]Term{}, isTop: top, free: free, callPos: callPos}
	for i, p := range fn.Params {
		fr.vals[p] = args[i]
	}
	order, back := rpo(fn)
	fr.loops = findLoops(fn, back)
	if len(fr.loops) > 0 && !top {
		x.fail("inlined callee %s has loops", funcKey(fn))
	}
	fr.in[0] = []edge{{cond: reach, st: st}}
	for _, b := range order {
		if b == fn.Recover {
			continue
		}
		x.runBlock(fr, b, back)
	}
	// merge returns
	if len(fr.rets) == 0 {
		return nil, st, "false"
	}
	var conds []Term
	for _, r := range fr.rets {
		conds = append(conds, r.cond)
	}
	outReach := or(conds...)
	var states []edge
	for _, r := range fr.rets {
		states = append(states, edge{cond: r.cond, st: r.st})
	}
	outSt := x.mergeStates(states)
	n := len(fr.rets[0].vals)
	out := make([]Val, n)
	for i := 0; i < n; i++ {
		var vs []Val
		for _, r := range fr.rets {
			vs = append(vs, r.vals[i])
		}
		out[i] = x.mergeVals(conds, vs)
	}
	return out, outSt, outReach
}

func (x *Exec) mergeVals(conds []Term, vs []Val) Val {
	if len(vs) == 1 {
		return vs[0]
	}
	same := true
	for _, v := range vs[1:] {
		if v.S != vs[0].S || v.L != vs[0].L || v.Fn != vs[0].Fn {
			same = false
		}
	}
	if same {
		return vs[0]
	}
	if len(vs[0].Tup) > 0 {
		out := Val{T: vs[0].T, Tup: make([]Val, len(vs[0].Tup))}
		for i := range vs[0].Tup {
			var sub []Val
			for _, v := range vs {
				sub = append(sub, v.Tup[i])
			}
			out.Tup[i] = x.mergeVals(conds, sub)
		}
		return out
	}
	for _, v := range vs {
		if v.L != nil {
			// pointer locations that differ cannot be merged statically
			if v.S == "" {
				x.fail("cannot merge distinct static pointer locations")
			}
		}
	}
	t := vs[len(vs)-1].S
	for i := len(vs) - 2; i >= 0; i-- {
		t = ite(conds[i], vs[i].S, t)
	}
	res := Val{T: vs[0].T, S: x.name("m", x.so.sortOf(vs[0].T), t)}
	// keep static function identity if all agree
	return res
}

func (x *Exec) mergeStates(es []edge) *State {
	if len(es) == 1 {
		return es[0].st.clone()
	}
	out := newState()
	keys := map[string]bool{}
	out.epoch = es[0].st.epoch
	for _, e := range es {
		for k := range e.st.heap {
			keys[k] = true
		}
		if e.st.epoch != out.epoch {
			out.epoch = -1
		}
	}
	if out.epoch == -1 {
		// different havoc epochs: materialise every known key
		for k := range x.heapSort {
			keys[k] = true
		}
		x.epoch++
		out.epoch = x.epoch
	}
	var ks []string
	for k := range keys {
		ks = append(ks, k)
	}
	sort.Strings(ks)
	for _, k := range ks {
		srt := x.heapSort[k]
		var ts []Term
		for _, e := range es {
			ts = append(ts, x.heapGet(e.st, k, srt))
		}
		out.heap[k] = x.mergeTerms(es, ts, srt)
	}
	cells := map[int]bool{}
	for _, e := range es {
		for c := range e.st.cells {
			cells[c] = true
		}
	}
	var cs []int
	for c := range cells {
		cs = append(cs, c)
	}
	sort.Ints(cs)
	for _, c := range cs {
		var ts []Term
		for _, e := range es {
			if t, ok := e.st.cells[c]; ok {
				ts = append(ts, t)
			} else {
				ts = append(ts, x.cellZero(c))
			}
		}
		out.cells[c] = x.mergeTerms(es, ts, x.cellSortOf(c))
	}
	return out
}

func (x *Exec) mergeTerms(es []edge, ts []Term, srt string) Term {
	same := true
	for _, t := range ts[1:] {
		if t != ts[0] {
			same = false
		}
	}
	if same {
		return ts[0]
	}
	t := ts[len(ts)-1]
	for i := len(ts) - 2; i >= 0; i-- {
		t = ite(es[i].cond, ts[i], t)
	}
	return x.name("j", srt, t)
}

func (x *Exec) runBlock(fr *Frame, b *ssa.BasicBlock, back map[[2]int]bool) {
	ins := fr.in[b.Index]
	if len(ins) == 0 {
		return
	}
	var conds []Term
	for _, e := range ins {
		conds = append(conds, e.cond)
	}
	reach := or(conds...)
	if reach == "false" {
		return
	}
	// name the reach condition
	rc := x.sc.freshConst(fmt.Sprintf("reach_%s_b%d", fr.fn.Name(), b.Index), "Bool")
	x.sc.assert(eq(rc, reach))
	reach = rc
	x.curReach = reach
	st := x.mergeStates(ins)
	fr.reach[b.Index] = reach

	li := fr.loops[b.Index]
	if li != nil {
		st = x.loopHead(fr, b, li, ins, st, reach)
	} else {
		// ordinary phis
		for _, in := range b.Instrs {
			phi, ok := in.(*ssa.Phi)
			if !ok {
				break
			}
			var vs []Val
			var cs []Term
			for _, e := range ins {
				for pi, p := range b.Preds {
					if p.Index == e.from {
						vs = append(vs, x.val(fr, phi.Edges[pi]))
						cs = append(cs, e.cond)
						break
					}
				}
			}
			fr.vals[phi] = x.mergeVals(cs, vs)
		}
	}

	for ii, in := range b.Instrs {
		if _, ok := in.(*ssa.Phi); ok {
			continue
		}
		if in.Pos().IsValid() {
			x.curPos = in.Pos()
		}
		x.curBlock, x.curIdx = b, ii
		x.curReach = reach
		switch t := in.(type) {
		case *ssa.If:
			c := x.val(fr, t.Cond).S
			x.addEdge(fr, b, b.Succs[0], and(reach, c), st, back)
			x.addEdge(fr, b, b.Succs[1], and(reach, not(c)), st, back)
			return
		case *ssa.Jump:
			x.addEdge(fr, b, b.Succs[0], reach, st, back)
			return
		case *ssa.Return:
			var vs []Val
			for _, r := range t.Results {
				vs = append(vs, x.val(fr, r))
			}
			// what is proved (and then assumed) at a return site is of no use after it: the assumed goals are
			// moved into the later obligations of this return and blanked in the common prefix
			oblStart := len(x.sc.obls)
			if fr.isTop {
				defer func() {
					var earlier []string
					for _, o := range x.sc.obls[oblStart:] {
						if o.Cover || o.goalIdx <= 0 || o.goalIdx >= len(x.sc.asserts) {
							continue
						}
						o.Extras = append(append([]string{}, earlier...), o.Extras...)
						earlier = append(earlier, x.sc.asserts[o.goalIdx])
						x.sc.asserts[o.goalIdx] = "true"
					}
				}()
			}
			if fr.isTop && x.fc != nil && len(x.fc.Anchors) > 0 {
				x.returnAnchors(fr, b, t, vs, st, reach)
			}
			if fr.isTop && x.fc != nil && x.entryEnv != nil {
				if os.Getenv("GOVC_COVER") != "" {
					x.cover(fmt.Sprintf("return%d", returnOrdinal(fr.fn, t)), reach, t.Pos(), "return reachable")
				}
				x.postsAtReturn(fr, t, vs, st, reach)
			}
			fr.rets = append(fr.rets, retRec{cond: reach, st: st, vals: vs, pos: t.Pos()})
			return
		case *ssa.Panic:
			x.oblige("panic", "explicit", not(reach), t.Pos(), "explicit panic must be unreachable")
			return
		default:
			st = x.instr(fr, in, st, reach)
		}
	}
}

func (x *Exec) addEdge(fr *Frame, from, to *ssa.BasicBlock, cond Term, st *State, back map[[2]int]bool) {
	if cond == "false" {
		return
	}
	if back[[2]int{from.Index, to.Index}] {
		x.loopBack(fr, from, to, cond, st)
		return
	}
	fr.in[to.Index] = append(fr.in[to.Index], edge{cond: cond, st: st.clone(), from: from.Index})
}

// oblige records an obligation: under the current assertions, goal must hold.
func (x *Exec) oblige(kind, label string, goal Term, pos token.Pos, text string) *Obligation {
	if goal == "true" {
		// still record trivially discharged obligations? keep the count honest: skip.
		return nil
	}
	if !x.keepThin(kind, label) {
		// thin unit (flags only_*): the other obligations of this function are decided elsewhere
		return nil
	}
	// large conjunctive goals are split into one obligation per conjunct (assert-then-assume in order)
	if len(goal) > 1000 && kind != "cover" {
		if parts := splitGoal(goal); len(parts) > 1 {
			var last *Obligation
			for i, p := range parts {
				last = x.oblige(kind, fmt.Sprintf("%s/%d", label, i+1), p, pos, text)
			}
			return last
		}
	}
	name := x.fnKey + "/" + kind
	if label != "" {
		name += ":" + label
	}
	// disambiguate repeated names
	x.callSeq["obl:"+name]++
	if n := x.callSeq["obl:"+name]; n > 1 {
		name = fmt.Sprintf("%s#%d", name, n)
	}
	o := &Obligation{Name: name, Func: x.fnKey, Kind: kind, Label: label, Goal: goal, Cut: len(x.sc.asserts), Pos: x.posStr(pos), Text: text}
	x.sc.obls = append(x.sc.obls, o)
	// assume it afterwards (assert-then-assume)
	o.goalIdx = len(x.sc.asserts)
	x.sc.assert(goal)
	return o
}

func (x *Exec) cover(label string, cond Term, pos token.Pos, text string) {
	name := x.fnKey + "/cover:" + label
	o := &Obligation{Name: name, Func: x.fnKey, Kind: "cover", Label: label, Goal: cond, Cut: len(x.sc.asserts), Pos: x.posStr(pos), Text: text, Cover: true}
	x.sc.obls = append(x.sc.obls, o)
}

// returnOrdinal numbers the return statements of a function in source order (1-based).
func returnOrdinal(fn *ssa.Function, r *ssa.Return) int {
	var rs []*ssa.Return
	for _, b := range fn.Blocks {
		if b == fn.Recover {
			continue
		}
		for _, in := range b.Instrs {
			if rr, ok := in.(*ssa.Return); ok {
				rs = append(rs, rr)
			}
		}
	}
	sort.SliceStable(rs, func(i, j int) bool { return rs[i].Pos() < rs[j].Pos() })
	for i, rr := range rs {
		if rr == r {
			return i + 1
		}
	}
	return 0
}

// returnAnchors handles `assert e at return n` (proof hint: proved, then assumed)
// and `assume e at return n` (listed as an assumption).
func (x *Exec) returnAnchors(fr *Frame, b *ssa.BasicBlock, r *ssa.Return, vs []Val, st *State, reach Term) {
	n := returnOrdinal(fr.fn, r)
	for _, ac := range x.fc.Anchors {
		if ac.At != "return" || ac.K != n {
			continue
		}
		env := &Env{vars: map[string]Val{}, cur: st, old: x.old, pkg: fr.fn.Pkg.Pkg, fr: fr, at: b, x: x, freshLo: "allocBase0"}
		env.lookup = func(name string) (Val, bool) { return x.lookupVar(fr, b, len(b.Instrs), name, env.cur) }
		resT := fr.fn.Signature.Results()
		for i := 0; i < resT.Len() && i < len(vs); i++ {
			env.vars[fmt.Sprintf("ret%d", i)] = vs[i]
			if isErrorType(resT.At(i).Type()) {
				env.vars["err"] = vs[i]
			}
		}
		t, okc := x.trClause(labelOr(ac.Clause.Label, 0), ac.Clause.Text, ac.Clause.Expr, env, r.Pos())
		if !okc {
			continue
		}
		if ac.Kind == "assert" {
			x.oblige("hint", fmt.Sprintf("return%d:%s", n, labelOr(ac.Clause.Label, 0)), implies(reach, t), r.Pos(), ac.Clause.Text)
		} else {
			x.sc.assert(implies(reach, t))
			x.sc.note("ASSUMED at return %d: %s", n, ac.Clause.Text)
		}
	}
}

// postsAtReturn checks every ensures clause at one return site (smaller VCs than
// checking the merged exit state; the same clause at several returns gets #n suffixes).
func (x *Exec) postsAtReturn(fr *Frame, r *ssa.Return, rets []Val, st *State, reach Term) {
	fn := fr.fn
	fc := x.fc
	penv := &Env{vars: map[string]Val{}, cur: st, old: x.old, pkg: fn.Pkg.Pkg, x: x, freshLo: "allocBase0"}
	for n, v := range x.entryEnv.vars {
		penv.vars[n] = v
	}
	resT := fn.Signature.Results()
	for i := 0; i < resT.Len() && i < len(rets); i++ {
		penv.vars[fmt.Sprintf("ret%d", i)] = rets[i]
		if n := resT.At(i).Name(); n != "" && n != "_" {
			penv.vars[n] = rets[i]
		}
		if i < len(fc.Results) {
			penv.vars[fc.Results[i]] = rets[i]
		}
		if isErrorType(resT.At(i).Type()) {
			if _, ok := penv.vars["err"]; !ok {
				penv.vars["err"] = rets[i]
			}
		}
	}
	if len(rets) == 1 {
		penv.vars["result"] = rets[0]
	}
	pos := r.Pos()
	if !pos.IsValid() {
		pos = fn.Pos()
	}
	if fc.Def != nil && len(rets) == 1 && !x.against {
		d := x.tr(fc.Def, x.entryEnv)
		x.oblige("post", "def", implies(reach, eq(rets[0].S, d.S)), pos, "result == "+fc.Def.cstr())
	}
	if x.flags["locks"] {
		x.heapBase(heldKey, heldSort)
		cur := x.heapGet(st, heldKey, heldSort)
		base := x.heapGet(x.old, heldKey, heldSort)
		x.oblige("lock", fmt.Sprintf("balanced@r%d", returnOrdinal(fn, r)), implies(reach, eq(cur, base)), pos, "every lock taken by this call is released on this path (held set at return = held set at entry)")
	}
	suffix := ""
	if nret := countReturns(fn); nret > 1 {
		suffix = fmt.Sprintf("@r%d", returnOrdinal(fn, r))
	}
	for i, en := range fc.Ensures {
		t := x.trBool(en.Expr, penv)
		x.oblige("post", labelOr(en.Label, i)+suffix, implies(reach, t), pos, en.Text)
	}
	if x.against {
		return
	}
	// `implements T when C`: under C this function is what callers of T run, so T's postconditions must hold here
	for _, im := range fc.Implements {
		tc := x.eng.cs.Funcs[im.Target]
		if tc == nil {
			x.fail("implements: no contract %s", im.Target)
		}
		ienv := &Env{vars: map[string]Val{}, cur: st, old: x.old, pkg: fn.Pkg.Pkg, x: x, freshLo: "allocBase0"}
		for n, v := range penv.vars {
			ienv.vars[n] = v
		}
		// bind the target's names: self = receiver, parameters and results by position
		if len(fn.Params) > 0 {
			ienv.vars["self"] = x.entryEnv.vars[fn.Params[0].Name()]
		}
		if sig, _ := x.eng.signatureOf(tc); sig != nil {
			for i := 0; i < sig.Params().Len() && i+1 < len(fn.Params); i++ {
				if n := sig.Params().At(i).Name(); n != "" && n != "_" {
					ienv.vars[n] = x.entryEnv.vars[fn.Params[i+1].Name()]
				}
			}
			for i := 0; i < sig.Results().Len() && i < len(rets); i++ {
				if n := sig.Results().At(i).Name(); n != "" && n != "_" {
					ienv.vars[n] = rets[i]
				}
			}
		}
		for i, n := range tc.Params {
			if i < len(fn.Params) {
				ienv.vars[n] = x.entryEnv.vars[fn.Params[i].Name()]
			}
		}
		when := x.trBool(im.When.Expr, &Env{vars: x.entryEnv.vars, cur: x.old, old: x.old, pkg: fn.Pkg.Pkg, x: x, freshLo: "allocBase0"})
		for i, en := range tc.Ensures {
			t := x.trBool(en.Expr, ienv)
			x.oblige("impl", shortCallee(im.Target)+":"+labelOr(en.Label, i)+suffix, implies(reach, implies(when, t)), pos, "when "+im.When.Text+": "+en.Text)
		}
	}
}

func countReturns(fn *ssa.Function) int {
	n := 0
	for _, b := range fn.Blocks {
		if b == fn.Recover {
			continue
		}
		for _, in := range b.Instrs {
			if _, ok := in.(*ssa.Return); ok {
				n++
			}
		}
	}
	return n
}

// sexprChildren splits "(op a b c)" into op and its argument terms.
func sexprChildren(t Term) (string, []Term) {
	if len(t) < 2 || t[0] != '(' || t[len(t)-1] != ')' {
		return "", nil
	}
	body := t[1 : len(t)-1]
	var parts []string
	depth := 0
	start := -1
	for i := 0; i < len(body); i++ {
		c := body[i]
		switch {
		case c == '(':
			if depth == 0 && start < 0 {
				start = i
			}
			depth++
		case c == ')':
			depth--
			if depth == 0 {
				parts = append(parts, body[start:i+1])
				start = -1
			}
		case c == ' ' || c == '\n' || c == '\t':
			if depth == 0 && start >= 0 {
				parts = append(parts, body[start:i])
				start = -1
			}
		default:
			if depth == 0 && start < 0 {
				start = i
			}
		}
	}
	if start >= 0 {
		parts = append(parts, body[start:])
	}
	if len(parts) == 0 {
		return "", nil
	}
	return parts[0], parts[1:]
}

// splitGoal turns (=> G1 (=> G2 (and A B ...))) into [(=> G1 (=> G2 A)), ...].
func splitGoal(goal Term) []Term {
	op, args := sexprChildren(goal)
	switch {
	case op == "=>" && len(args) == 2:
		sub := splitGoal(args[1])
		if len(sub) <= 1 {
			return []Term{goal}
		}
		var out []Term
		for _, s := range sub {
			out = append(out, "(=> "+args[0]+" "+s+")")
		}
		return out
	case op == "and" && len(args) >= 2:
		var out []Term
		for _, a := range args {
			out = append(out, splitGoal(a)...)
		}
		return out
	}
	return []Term{goal}
}

// keepThin: in thin units (flags only_<prefix>) only obligations whose label starts with one of the
// prefixes are generated (lock obligations belong to prefix "locks").
// assumeHere adds a fact about values of the current program point. It is guarded by the reach
// condition of that point: on the other paths the merged state terms are arbitrary, and an
// unguarded fact about them would constrain the inputs of those paths (vacuity).
func (x *Exec) assumeHere(t Term) {
	if x.curReach == "" || x.curReach == "true" {
		x.sc.assert(t)
		return
	}
	x.sc.assert(implies(x.curReach, t))
}

func (x *Exec) keepThin(kind, label string) bool {
	if kind == "bind" {
		return true
	}
	if kind == "post" && strings.HasPrefix(label, "ghost") {
		// bookkeeping clause: defines a ghost counter (no code updates ghost state); assumed by callers, reported as such
		return false
	}
	if x.flags["lockonly"] && len(x.only) == 0 {
		x.only = []string{"locks"}
	}
	if len(x.only) == 0 || kind == "frame" {
		return true
	}
	for _, p := range x.only {
		if p == "locks" && kind == "lock" {
			return true
		}
		if p == "panic" && kind == "panic" {
			return true
		}
		if strings.HasPrefix(label, p) || strings.Contains(label, ":"+p) {
			return true
		}
	}
	return false
}

// callAnchors handles `assert e at call <callee> [k]`: checked right before the k-th call whose
// callee name contains <callee>.
func (x *Exec) callAnchors(fr *Frame, calleeKey string, st *State, reach Term, pos token.Pos) {
	if !fr.isTop || x.fc == nil || x.curBlock == nil {
		return
	}
	cur := x.curBlock.Instrs[x.curIdx]
	for i := range x.fc.Anchors {
		ac := &x.fc.Anchors[i]
		if ac.At != "call" {
			continue
		}
		if x.anchorTarget(fr.fn, ac) != cur {
			continue
		}
		b, idx := x.curBlock, x.curIdx
		env := &Env{vars: map[string]Val{}, cur: st, old: x.old, pkg: fr.fn.Pkg.Pkg, fr: fr, at: b, x: x, freshLo: "allocBase0"}
		for n, v := range x.entryEnv.vars {
			env.vars[n] = v
		}
		env.lookup = func(name string) (Val, bool) { return x.lookupVar(fr, b, idx, name, env.cur) }
		// locals shadow parameters of the same name only through lookup; parameters stay bound to entry values
		for _, p := range fr.fn.Params {
			delete(env.vars, p.Name())
		}
		// arg0, arg1, ...: the values passed at this call (receiver first for methods)
		if ci, ok := cur.(ssa.CallInstruction); ok {
			for ai, a := range ci.Common().Args {
				env.vars[fmt.Sprintf("arg%d", ai)] = x.val(fr, a)
			}
			// recv: the interface value a method is invoked on
			if ci.Common().IsInvoke() {
				env.vars["recv"] = x.val(fr, ci.Common().Value)
			}
		}
		t, okc := x.trClause(labelOr(ac.Clause.Label, 0), ac.Clause.Text, ac.Clause.Expr, env, pos)
		if !okc {
			continue
		}
		if ac.Kind == "assert" {
			x.oblige("order", fmt.Sprintf("%s@%s#%d", labelOr(ac.Clause.Label, 0), ac.Callee, ac.K), implies(reach, t), pos, ac.Clause.Text)
		} else {
			x.sc.assert(implies(reach, t))
			x.sc.note("ASSUMED at call %s: %s", ac.Callee, ac.Clause.Text)
		}
	}
}

// anchorTarget: the K-th call (in source order) of the function whose callee name contains ac.Callee.
func (x *Exec) anchorTarget(fn *ssa.Function, ac *AnchorClause) ssa.Instruction {
	var cands []ssa.Instruction
	for _, b := range fn.Blocks {
		if b == fn.Recover {
			continue
		}
		for _, in := range b.Instrs {
			ci, ok := in.(ssa.CallInstruction)
			if !ok {
				continue
			}
			if _, isGo := in.(*ssa.Go); isGo {
				continue
			}
			if strings.Contains(x.staticCalleeKey(ci.Common()), ac.Callee) {
				cands = append(cands, in)
			}
		}
	}
	sort.SliceStable(cands, func(i, j int) bool { return cands[i].Pos() < cands[j].Pos() })
	if ac.K >= 1 && ac.K <= len(cands) {
		return cands[ac.K-1]
	}
	return nil
}

func (x *Exec) staticCalleeKey(c *ssa.CallCommon) string {
	if c.IsInvoke() {
		return x.ifaceKey(c)
	}
	var callee *ssa.Function
	switch v := c.Value.(type) {
	case *ssa.Function:
		callee = v
	case *ssa.MakeClosure:
		callee = v.Fn.(*ssa.Function)
	}
	if callee == nil {
		if k := x.funcFieldKey(c.Value); k != "" {
			return k
		}
		return ""
	}
	if callee.Origin() != nil {
		callee = callee.Origin()
	}
	if callee.Pkg == nil || !strings.HasPrefix(callee.Pkg.Pkg.Path(), modPath) {
		return fullName(callee)
	}
	return funcKey(callee)
}
