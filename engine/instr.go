package main

import (
	"fmt"
	"go/token"
	"go/types"
	"strings"

	"golang.org/x/tools/go/ssa"
)

func isPointer(t types.Type) bool {
	_, ok := under(t).(*types.Pointer)
	return ok
}

// allocEscapes decides whether an Alloc must be a heap object (its address
// flows somewhere we cannot follow statically).
func allocEscapes(a *ssa.Alloc) bool {
	seen := map[ssa.Value]bool{}
	var esc func(v ssa.Value) bool
	esc = func(v ssa.Value) bool {
		if seen[v] {
			return false
		}
		seen[v] = true
		refs := v.Referrers()
		if refs == nil {
			return false
		}
		for _, r := range *refs {
			switch u := r.(type) {
			case *ssa.FieldAddr:
				if esc(u) {
					return true
				}
			case *ssa.IndexAddr:
				if esc(u) {
					return true
				}
			case *ssa.UnOp: // load
			case *ssa.Store:
				if u.Val == v {
					return true // address stored somewhere
				}
			case *ssa.DebugRef:
			case *ssa.MakeClosure:
			case *ssa.Slice:
				// slicing an array keeps a region, fine
			case *ssa.Call:
				// passing the address to a call: handled as a static location
			case *ssa.Defer:
			default:
				return true
			}
		}
		return false
	}
	return esc(a)
}

func (x *Exec) instr(fr *Frame, in ssa.Instruction, st *State, reach Term) *State {
	switch t := in.(type) {
	case *ssa.DebugRef:
		return st
	case *ssa.Alloc:
		x.alloc(fr, t, st)
	case *ssa.FieldAddr:
		base := x.val(fr, t.X)
		x.nilCheck(base, reach, t.Pos())
		fr.vals[t] = Val{T: t.Type(), L: x.fieldLoc(base, t.Field)}
	case *ssa.Field:
		base := x.val(fr, t.X)
		si := x.so.structOf(base.T)
		fr.vals[t] = Val{T: t.Type(), S: app(si.Fields[t.Field].Sel, base.S)}
	case *ssa.IndexAddr:
		fr.vals[t] = x.indexAddr(fr, t, st, reach)
	case *ssa.Index:
		base := x.val(fr, t.X)
		idx := x.val(fr, t.Index).S
		switch bt := under(base.T).(type) {
		case *types.Array:
			key, srt := x.elemKey(bt.Elem())
			x.heapBase(key, srt)
			x.oblige("panic", "index", implies(reach, and(le("0", idx), lt(idx, intLit(bt.Len())))), t.Pos(), "array index in range")
			fr.vals[t] = Val{T: t.Type(), S: sel(sel(x.heapGet(st, key, srt), base.S), idx)}
		default:
			x.fail("Index on %s", base.T)
		}
	case *ssa.UnOp:
		fr.vals[t] = x.unop(fr, t, st, reach)
	case *ssa.Store:
		addr := x.val(fr, t.Addr)
		v := x.val(fr, t.Val)
		x.storeVal(st, addr, v, reach, t.Pos())
		x.storeAnchors(fr, t, st, reach)
	case *ssa.BinOp:
		fr.vals[t] = x.binop(fr, t, reach)
	case *ssa.Convert:
		fr.vals[t] = x.convert(x.val(fr, t.X), t.Type())
	case *ssa.ChangeType:
		v := x.val(fr, t.X)
		v.T = t.Type()
		fr.vals[t] = v
	case *ssa.ChangeInterface:
		v := x.val(fr, t.X)
		if isErrorType(v.T) && !isErrorType(t.Type()) {
			// error boxed into a plain interface (e.g. a fmt argument)
			x.sc.declFun("errBox", []string{"Err"}, "Int")
			v = Val{T: t.Type(), S: fmt.Sprintf("(mk_iface %d (errBox %s))", x.so.typeTag(v.T), v.S)}
		}
		v.T = t.Type()
		fr.vals[t] = v
	case *ssa.MakeInterface:
		fr.vals[t] = x.makeIface(x.val(fr, t.X), t.Type())
	case *ssa.TypeAssert:
		fr.vals[t] = x.typeAssert(fr, t, reach)
	case *ssa.Extract:
		tv := x.val(fr, t.Tuple)
		if t.Index >= len(tv.Tup) {
			x.fail("extract %d of tuple with %d", t.Index, len(tv.Tup))
		}
		fr.vals[t] = tv.Tup[t.Index]
	case *ssa.MakeSlice:
		ln := x.val(fr, t.Len).S
		cp := x.val(fr, t.Cap).S
		x.oblige("panic", "make", implies(reach, and(le("0", ln), le(ln, cp))), t.Pos(), "make: 0 <= len <= cap")
		if lim, ok := x.fc.limit("make"); ok {
			x.oblige("panic", "make-size", implies(reach, le(cp, lim)), t.Pos(), "make: allocation bounded")
		}
		reg := x.freshRef()
		et := t.Type().Underlying().(*types.Slice).Elem()
		key, srt := x.elemKey(et)
		h := x.heapGet(st, key, srt)
		zarr := x.sc.freshConst("zeros", "(Array Int "+x.so.sortOf(et)+")")
		x.sc.assert(fmt.Sprintf("(forall ((i Int)) (! (= (select %s i) %s) :pattern ((select %s i))))", zarr, x.so.zero(et), zarr))
		st.heap[key] = x.name("h", srt, store(h, reg, zarr))
		fr.vals[t] = Val{T: t.Type(), S: fmt.Sprintf("(mk_slice %s 0 %s %s)", reg, ln, cp)}
	case *ssa.Slice:
		fr.vals[t] = x.sliceOp(fr, t, st, reach)
	case *ssa.MakeMap:
		ref := x.freshRef()
		mt := t.Type().Underlying().(*types.Map)
		dk, ds, _, _ := x.mapKeys(mt)
		h := x.heapGet(st, dk, ds)
		st.heap[dk] = x.name("h", ds, store(h, ref, x.emptySet(mt)))
		fr.vals[t] = Val{T: t.Type(), S: ref}
	case *ssa.MapUpdate:
		x.mapUpdate(fr, t, st, reach)
	case *ssa.Lookup:
		fr.vals[t] = x.lookup(fr, t, st, reach)
	case *ssa.Range:
		fr.vals[t] = x.rangeInit(fr, t, st)
	case *ssa.Next:
		fr.vals[t] = x.rangeNext(fr, t, st, reach)
	case *ssa.MakeClosure:
		fn := t.Fn.(*ssa.Function)
		var binds []Val
		for _, b := range t.Bindings {
			binds = append(binds, x.val(fr, b))
		}
		fr.vals[t] = Val{T: t.Type(), Fn: fn, Bind: binds, S: x.funcID(fn)}
	case *ssa.Call:
		v, nst := x.call(fr, t, &t.Call, st, reach, t.Pos())
		fr.vals[t] = v
		return nst
	case *ssa.Defer:
		fr.defers = append(fr.defers, deferRec{call: t, guard: reach, fr: fr})
	case *ssa.RunDefers:
		for i := len(fr.defers) - 1; i >= 0; i-- {
			d := fr.defers[i]
			g := and(reach, d.guard)
			_, nst := x.call(fr, d.call, &d.call.Call, st.clone(), g, d.call.Pos())
			st = x.mergeStates([]edge{{cond: d.guard, st: nst}, {cond: "true", st: st}})
		}
	case *ssa.MakeChan:
		fr.vals[t] = x.makeChan(fr, t, st)
	case *ssa.Send:
		x.chanSend(fr, t, st, reach)
	case *ssa.Select:
		fr.vals[t] = x.chanSelect(fr, t, st, reach)
	case *ssa.Go:
		x.fail("unsupported instruction %T", in)
	default:
		x.fail("unsupported instruction %T", in)
	}
	return st
}

func (x *Exec) nilCheck(base Val, reach Term, pos token.Pos) {
	if !x.flags["nilcheck"] || base.L != nil || base.S == "" {
		return
	}
	x.oblige("panic", "nil", implies(reach, not(eq(base.S, "0"))), pos, "nil dereference")
}

func (x *Exec) alloc(fr *Frame, a *ssa.Alloc, st *State) {
	et := a.Type().(*types.Pointer).Elem()
	if at, ok := under(et).(*types.Array); ok {
		reg := x.freshRef()
		key, srt := x.elemKey(at.Elem())
		h := x.heapGet(st, key, srt)
		zarr := x.sc.freshConst("zeros", "(Array Int "+x.so.sortOf(at.Elem())+")")
		x.sc.assert(fmt.Sprintf("(forall ((i Int)) (! (= (select %s i) %s) :pattern ((select %s i))))", zarr, x.so.zero(at.Elem()), zarr))
		st.heap[key] = x.name("h", srt, store(h, reg, zarr))
		l := &Loc{Kind: lCell, Cell: x.newCell(et), RootT: et, T: et, ArrRegion: reg, ArrLen: at.Len()}
		fr.vals[a] = Val{T: a.Type(), L: l}
		return
	}
	si := x.so.structOf(et)
	if si != nil && a.Heap && allocEscapes(a) {
		ref := x.freshRef()
		for i := range si.Fields {
			key, srt := x.fieldKey(si, i)
			h := x.heapGet(st, key, srt)
			st.heap[key] = x.name("h", srt, store(h, ref, x.so.zero(si.Fields[i].T)))
		}
		x.zeroGhostFields(st, si, ref)
		fr.vals[a] = Val{T: a.Type(), S: ref}
		return
	}
	if a.Heap && allocEscapes(a) {
		// pointer to a non-struct value escaping: heap cell keyed by sort
		ref := x.freshRef()
		key, srt := x.derefKey(et)
		h := x.heapGet(st, key, srt)
		st.heap[key] = x.name("h", srt, store(h, ref, x.so.zero(et)))
		fr.vals[a] = Val{T: a.Type(), S: ref}
		return
	}
	c := x.newCell(et)
	st.cells[c] = x.so.zero(et)
	fr.vals[a] = Val{T: a.Type(), L: &Loc{Kind: lCell, Cell: c, RootT: et, T: et}}
}

func (x *Exec) indexAddr(fr *Frame, t *ssa.IndexAddr, st *State, reach Term) Val {
	base := x.val(fr, t.X)
	idx := x.val(fr, t.Index).S
	et := t.Type().(*types.Pointer).Elem()
	switch bt := under(base.T).(type) {
	case *types.Slice:
		key, srt := x.elemKey(bt.Elem())
		x.heapBase(key, srt)
		x.oblige("panic", "index", implies(reach, and(le("0", idx), lt(idx, app("s_len", base.S)))), t.Pos(), "slice index in range")
		l := &Loc{Kind: lElem, Key: key, Region: app("s_reg", base.S), Index: app("sidx", app("s_off", base.S), idx), RootT: et, T: et}
		return Val{T: t.Type(), L: l}
	case *types.Pointer:
		at, ok := under(bt.Elem()).(*types.Array)
		if !ok || base.L == nil {
			x.fail("IndexAddr on %s", base.T)
		}
		key, srt := x.elemKey(at.Elem())
		x.heapBase(key, srt)
		x.oblige("panic", "index", implies(reach, and(le("0", idx), lt(idx, intLit(at.Len())))), t.Pos(), "array index in range")
		l := &Loc{Kind: lElem, Key: key, Region: base.L.ArrRegion, Index: idx, RootT: et, T: et}
		return Val{T: t.Type(), L: l}
	}
	x.fail("IndexAddr on %s", base.T)
	return Val{}
}

func (x *Exec) ptrLoc(p Val) *Loc {
	if p.L != nil {
		return p.L
	}
	pt, ok := under(p.T).(*types.Pointer)
	if !ok {
		x.fail("deref of non-pointer %s", p.T)
	}
	if si := x.so.structOf(pt.Elem()); si != nil {
		// whole-struct access through a heap reference: not a single location.
		return nil
	}
	key, srt := x.derefKey(pt.Elem())
	x.heapBase(key, srt)
	return &Loc{Kind: lDeref, Ref: p.S, Key: key, RootT: pt.Elem(), T: pt.Elem()}
}

// loadPtr loads *p.
func (x *Exec) loadPtr(st *State, p Val) Val {
	if l := x.ptrLoc(p); l != nil {
		v := x.load(st, l)
		x.assumeRange(v)
		if len(v.S) < 300 {
			x.assumeAllocated(v) // a value read now refers only to objects that exist now
		}
		return v
	}
	// struct through heap ref: assemble from field arrays
	pt := under(p.T).(*types.Pointer)
	si := x.so.structOf(pt.Elem())
	var args []string
	for i := range si.Fields {
		key, srt := x.fieldKey(si, i)
		args = append(args, sel(x.heapGet(st, key, srt), p.S))
	}
	if len(args) == 0 {
		return Val{T: pt.Elem(), S: "mk_" + si.Sort}
	}
	return Val{T: pt.Elem(), S: "(mk_" + si.Sort + " " + strings.Join(args, " ") + ")"}
}

func (x *Exec) assumeRange(v Val) {
	if v.S == "" {
		return
	}
	if rf := rangeFact(v.T, v.S); rf != "" && len(v.S) < 200 {
		x.assumeHere(rf)
	}
	if _, ok := under(v.T).(*types.Slice); ok && len(v.S) < 200 {
		x.assumeHere(app("wfSlice", v.S))
	}
}

func (x *Exec) storeVal(st *State, addr Val, v Val, reach Term, pos token.Pos) {
	if v.S == "" && v.L != nil {
		x.fail("storing a static pointer location into memory is not supported")
	}
	if l := x.ptrLoc(addr); l != nil {
		x.lockCheck(st, l, true, reach, pos)
		if at, ok := under(l.T).(*types.Array); ok && l.ArrRegion != "" && v.S != "" && v.S != l.ArrRegion {
			// assignment of a whole array (array values are region ids): the elements are copied
			key, srt := x.elemKey(at.Elem())
			h := x.heapGet(st, key, srt)
			st.heap[key] = x.name("h", srt, store(h, l.ArrRegion, sel(h, v.S)))
			return
		}
		x.storeLoc(st, l, v.S)
		return
	}
	pt := under(addr.T).(*types.Pointer)
	si := x.so.structOf(pt.Elem())
	for i := range si.Fields {
		key, srt := x.fieldKey(si, i)
		h := x.heapGet(st, key, srt)
		st.heap[key] = x.name("h", srt, store(h, addr.S, app(si.Fields[i].Sel, v.S)))
	}
}

func (x *Exec) unop(fr *Frame, t *ssa.UnOp, st *State, reach Term) Val {
	v := x.val(fr, t.X)
	switch t.Op {
	case token.MUL:
		if g, ok := t.X.(*ssa.Global); ok {
			if r, ok := x.eng.globalValue(x, g); ok {
				return r
			}
		}
		if l := x.ptrLoc(v); l != nil {
			x.lockCheck(st, l, false, reach, t.Pos())
		}
		r := x.loadPtr(st, v)
		r.T = t.Type()
		return r
	case token.NOT:
		return Val{T: t.Type(), S: not(v.S)}
	case token.SUB:
		return Val{T: t.Type(), S: x.wrap(t.Type(), "(- "+v.S+")")}
	case token.XOR:
		b := under(t.Type()).(*types.Basic)
		bits, signed := intBits(b)
		if signed {
			return Val{T: t.Type(), S: "(- (- " + v.S + ") 1)"}
		}
		return Val{T: t.Type(), S: "(- " + pow2(bits) + " 1 " + v.S + ")"}
	case token.ARROW:
		c := x.val(fr, t.X)
		elemT := under(c.T).(*types.Chan).Elem()
		v, ok := x.chanRecv(c, elemT, st, reach)
		if t.CommaOk {
			return Val{T: t.Type(), Tup: []Val{v, {T: tBool, S: ok}}}
		}
		return v
	}
	x.fail("unop %s", t.Op)
	return Val{}
}

// wrap applies machine wrap-around unless the function treats arithmetic as
// mathematical (default) — overflow obligations are emitted in `overflow` functions.
func (x *Exec) wrap(t types.Type, s Term) Term { return s }

func (x *Exec) binop(fr *Frame, t *ssa.BinOp, reach Term) Val {
	a := x.val(fr, t.X)
	b := x.val(fr, t.Y)
	rt := t.Type()
	cmp := func(op string) Val { return Val{T: rt, S: "(" + op + " " + a.S + " " + b.S + ")"} }
	switch t.Op {
	case token.EQL:
		return Val{T: rt, S: x.equal(a, b)}
	case token.NEQ:
		return Val{T: rt, S: not(x.equal(a, b))}
	case token.LSS:
		return cmp("<")
	case token.LEQ:
		return cmp("<=")
	case token.GTR:
		return cmp(">")
	case token.GEQ:
		return cmp(">=")
	}
	bt, _ := under(rt).(*types.Basic)
	if bt != nil && bt.Info()&types.IsString != 0 {
		if t.Op == token.ADD {
			x.sc.declFun("strcat", []string{"Str", "Str"}, "Str")
			return Val{T: rt, S: app("strcat", a.S, b.S)}
		}
	}
	if bt == nil || bt.Info()&types.IsInteger == 0 {
		x.fail("binop %s on %s", t.Op, rt)
	}
	var r Term
	switch t.Op {
	case token.ADD:
		r = "(+ " + a.S + " " + b.S + ")"
	case token.SUB:
		r = "(- " + a.S + " " + b.S + ")"
	case token.MUL:
		r = "(* " + a.S + " " + b.S + ")"
	case token.QUO:
		x.oblige("panic", "div", implies(reach, not(eq(b.S, "0"))), t.Pos(), "division by zero")
		r = app("tdiv", a.S, b.S)
	case token.REM:
		x.oblige("panic", "div", implies(reach, not(eq(b.S, "0"))), t.Pos(), "division by zero")
		r = app("tmod", a.S, b.S)
	case token.AND, token.OR, token.XOR, token.AND_NOT:
		r = x.bitop(t.Op, a, b, bt)
	case token.SHL, token.SHR:
		r = x.shift(t.Op, a, b, bt)
	default:
		x.fail("binop %s", t.Op)
	}
	if t.Op == token.ADD || t.Op == token.SUB || t.Op == token.MUL {
		if x.flags["overflow"] {
			x.oblige("overflow", t.Op.String(), implies(reach, rangeFact(rt, r)), t.Pos(), "arithmetic stays within "+rt.String())
		}
	}
	return Val{T: rt, S: r}
}

func constOf(s Term) (uint64, bool) {
	var n uint64
	if s == "" {
		return 0, false
	}
	for _, c := range s {
		if c < '0' || c > '9' {
			return 0, false
		}
		n = n*10 + uint64(c-'0')
	}
	return n, true
}

func (x *Exec) bitop(op token.Token, a, b Val, bt *types.Basic) Term {
	bits, signed := intBits(bt)
	c, okb := constOf(b.S)
	v := a.S
	if !okb {
		if ca, oka := constOf(a.S); oka {
			c, okb = ca, true
			v = b.S
		}
	}
	if okb && !signed && bits <= 16 {
		bit := func(k int) Term { return fmt.Sprintf("(mod (div %s %s) 2)", v, pow2(k)) }
		var parts []Term
		switch op {
		case token.AND:
			for k := 0; k < bits; k++ {
				if c&(1<<uint(k)) != 0 {
					parts = append(parts, fmt.Sprintf("(* %s %s)", pow2(k), bit(k)))
				}
			}
			if len(parts) == 0 {
				return "0"
			}
			if len(parts) == 1 {
				return parts[0]
			}
			return "(+ " + strings.Join(parts, " ") + ")"
		case token.OR:
			parts = append(parts, v)
			for k := 0; k < bits; k++ {
				if c&(1<<uint(k)) != 0 {
					parts = append(parts, fmt.Sprintf("(* %s (- 1 %s))", pow2(k), bit(k)))
				}
			}
			if len(parts) == 1 {
				return parts[0]
			}
			return "(+ " + strings.Join(parts, " ") + ")"
		}
	}
	name := map[token.Token]string{token.AND: "bitand", token.OR: "bitor", token.XOR: "bitxor", token.AND_NOT: "bitandnot"}[op]
	x.sc.declFun(name, []string{"Int", "Int"}, "Int")
	x.sc.note("bit operation %s modelled as uninterpreted function", name)
	return app(name, a.S, b.S)
}

func (x *Exec) shift(op token.Token, a, b Val, bt *types.Basic) Term {
	if c, ok := constOf(b.S); ok && c < 64 {
		if op == token.SHL {
			bits, signed := intBits(bt)
			r := fmt.Sprintf("(* %s %s)", a.S, pow2(int(c)))
			if !signed {
				return fmt.Sprintf("(mod %s %s)", r, pow2(bits))
			}
			return r
		}
		return fmt.Sprintf("(div %s %s)", a.S, pow2(int(c)))
	}
	name := "shl"
	if op == token.SHR {
		name = "shr"
	}
	x.sc.declFun(name, []string{"Int", "Int"}, "Int")
	return app(name, a.S, b.S)
}

// equal builds equality for two values of the same Go type.
func (x *Exec) equal(a, b Val) Term {
	ta := types.Unalias(a.T)
	if a.S == "" || b.S == "" {
		if a.L != nil && b.L != nil && a.L == b.L {
			return "true"
		}
		x.fail("comparison of static pointer locations")
	}
	switch ta.Underlying().(type) {
	case *types.Slice:
		// only comparison with nil is legal
		other := b
		if a.S == "nilSlice" {
			other = b
		} else {
			other = a
		}
		return eq(app("s_reg", other.S), "0")
	case *types.Interface:
		if isErrorType(ta) {
			return eq(a.S, b.S)
		}
		if a.S == "nilIface" {
			return eq(app("i_tag", b.S), "0")
		}
		if b.S == "nilIface" {
			return eq(app("i_tag", a.S), "0")
		}
		return eq(a.S, b.S)
	case *types.Signature:
		if b.S == "0" || a.S == "0" {
			return eq(a.S, b.S)
		}
	}
	return eq(a.S, b.S)
}

func (x *Exec) convert(v Val, to types.Type) Val {
	from := under(v.T)
	tu := under(to)
	fb, fok := from.(*types.Basic)
	tb, tok := tu.(*types.Basic)
	if fok && tok && fb.Info()&types.IsInteger != 0 && tb.Info()&types.IsInteger != 0 {
		fbits, fsigned := intBits(fb)
		tbits, tsigned := intBits(tb)
		if fb.Kind() == types.UntypedInt {
			return Val{T: to, S: v.S}
		}
		// widening without sign change, or unsigned -> wider signed: identity
		if (fsigned == tsigned && tbits >= fbits) || (!fsigned && tsigned && tbits > fbits) {
			return Val{T: to, S: v.S}
		}
		m := pow2(tbits)
		if !tsigned {
			return Val{T: to, S: fmt.Sprintf("(mod %s %s)", v.S, m)}
		}
		// to signed, possibly narrowing: ((v + 2^(n-1)) mod 2^n) - 2^(n-1)
		h := pow2(tbits - 1)
		return Val{T: to, S: fmt.Sprintf("(- (mod (+ %s %s) %s) %s)", v.S, h, m, h)}
	}
	// string <-> []byte etc.
	if _, ok := tu.(*types.Slice); ok && fok && fb.Info()&types.IsString != 0 {
		x.sc.declFun("bytesOfStr", []string{"Str"}, "Slice")
		return Val{T: to, S: app("bytesOfStr", v.S)}
	}
	if tok && tb.Info()&types.IsString != 0 {
		if _, ok := from.(*types.Slice); ok {
			x.sc.declFun("strOfBytes", []string{"Slice"}, "Str")
			return Val{T: to, S: app("strOfBytes", v.S)}
		}
	}
	if x.so.sortOf(v.T) == x.so.sortOf(to) {
		return Val{T: to, S: v.S, L: v.L}
	}
	x.fail("convert %s -> %s", v.T, to)
	return Val{}
}

func (x *Exec) makeIface(v Val, to types.Type) Val {
	if isErrorType(to) {
		// concrete error types boxed into error: opaque fresh error
		x.sc.declFun("errOf", []string{"Int", "Int"}, "Err")
		return Val{T: to, S: app("errOf", fmt.Sprint(x.so.typeTag(v.T)), x.payload(v))}
	}
	tag := x.so.typeTag(v.T)
	return Val{T: to, S: fmt.Sprintf("(mk_iface %d %s)", tag, x.payload(v))}
}

func (x *Exec) payload(v Val) Term {
	if v.S == "" {
		x.fail("boxing a static pointer location into an interface")
	}
	switch x.so.sortOf(v.T) {
	case "Int":
		return v.S
	case "Bool":
		return ite(v.S, "1", "0")
	}
	// other payloads: injective encoding function per sort
	s := x.so.sortOf(v.T)
	fn := "box_" + s
	x.sc.declFun(fn, []string{s}, "Int")
	x.sc.declFun("un"+fn, []string{"Int"}, s)
	x.sc.assert(fmt.Sprintf("(forall ((v %s)) (! (= (un%s (%s v)) v) :pattern ((%s v))))", s, fn, fn, fn))
	return app(fn, v.S)
}

func (x *Exec) unpayload(p Term, t types.Type) Term {
	switch s := x.so.sortOf(t); s {
	case "Int":
		return p
	case "Bool":
		return eq(p, "1")
	default:
		fn := "box_" + s
		x.sc.declFun(fn, []string{s}, "Int")
		x.sc.declFun("un"+fn, []string{"Int"}, s)
		return app("un"+fn, p)
	}
}

func (x *Exec) typeAssert(fr *Frame, t *ssa.TypeAssert, reach Term) Val {
	v := x.val(fr, t.X)
	if _, isIface := under(t.AssertedType).(*types.Interface); isIface {
		// interface-to-interface: identity, ok = non-nil
		if t.CommaOk {
			return Val{T: t.Type(), Tup: []Val{{T: t.AssertedType, S: v.S}, {T: types.Typ[types.Bool], S: not(eq(app("i_tag", v.S), "0"))}}}
		}
		return Val{T: t.AssertedType, S: v.S}
	}
	tag := fmt.Sprint(x.so.typeTag(t.AssertedType))
	ok := eq(app("i_tag", v.S), tag)
	res := Val{T: t.AssertedType, S: x.unpayload(app("i_val", v.S), t.AssertedType)}
	if t.CommaOk {
		return Val{T: t.Type(), Tup: []Val{res, {T: types.Typ[types.Bool], S: ok}}}
	}
	x.oblige("panic", "typeassert", implies(reach, ok), t.Pos(), "type assertion to "+t.AssertedType.String())
	return res
}

func (x *Exec) sliceOp(fr *Frame, t *ssa.Slice, st *State, reach Term) Val {
	base := x.val(fr, t.X)
	var lo, hi Term = "0", ""
	if t.Low != nil {
		lo = x.val(fr, t.Low).S
	}
	if t.High != nil {
		hi = x.val(fr, t.High).S
	}
	if t.Max != nil {
		x.fail("3-index slice")
	}
	switch bt := under(base.T).(type) {
	case *types.Slice:
		if hi == "" {
			hi = app("s_len", base.S)
		}
		x.oblige("panic", "slice", implies(reach, and(le("0", lo), le(lo, hi), le(hi, app("s_cap", base.S)))), t.Pos(), "slice bounds in range")
		return Val{T: t.Type(), S: x.name("sl", "Slice", fmt.Sprintf("(mk_slice %s (+ %s %s) (- %s %s) (- %s %s))",
			app("s_reg", base.S), app("s_off", base.S), lo, hi, lo, app("s_cap", base.S), lo))}
	case *types.Pointer:
		at, ok := under(bt.Elem()).(*types.Array)
		if !ok || base.L == nil {
			x.fail("Slice on %s", base.T)
		}
		n := intLit(at.Len())
		if hi == "" {
			hi = n
		}
		x.oblige("panic", "slice", implies(reach, and(le("0", lo), le(lo, hi), le(hi, n))), t.Pos(), "slice bounds in range")
		return Val{T: t.Type(), S: x.name("sl", "Slice", fmt.Sprintf("(mk_slice %s %s (- %s %s) (- %s %s))", base.L.ArrRegion, lo, hi, lo, n, lo))}
	case *types.Basic:
		x.sc.declFun("substr", []string{"Str", "Int", "Int"}, "Str")
		if hi == "" {
			x.sc.declFun("strlen", []string{"Str"}, "Int")
			hi = app("strlen", base.S)
		}
		return Val{T: t.Type(), S: app("substr", base.S, lo, hi)}
	}
	x.fail("Slice on %s", base.T)
	return Val{}
}

// ---------------- maps ----------------

func (x *Exec) mapKeys(mt *types.Map) (domKey, domSort, valKey, valSort string) {
	ks := x.so.sortOf(mt.Key())
	vs := x.so.sortOf(mt.Elem())
	domKey = "MD:" + ks
	domSort = "(Array Int (Array " + ks + " Bool))"
	valKey = "MV:" + ks + ":" + vs
	valSort = "(Array Int (Array " + ks + " " + vs + "))"
	x.heapBase(domKey, domSort)
	if vs != "Unit" {
		x.heapBase(valKey, valSort)
	}
	x.sc.declFun("card_"+sanitize(ks), []string{"(Array " + ks + " Bool)"}, "Int")
	return
}

func (x *Exec) emptySet(mt *types.Map) Term {
	ks := x.so.sortOf(mt.Key())
	name := "emptyset_" + sanitize(ks)
	if !x.sc.declared["c:"+name] {
		x.sc.declConst(name, "(Array "+ks+" Bool)")
		x.sc.assert(fmt.Sprintf("(forall ((k %s)) (! (not (select %s k)) :pattern ((select %s k))))", ks, name, name))
		x.sc.assert(eq(app("card_"+sanitize(ks), name), "0"))
	}
	return name
}

func (x *Exec) mapDom(st *State, m Val) Term {
	mt := under(m.T).(*types.Map)
	dk, ds, _, _ := x.mapKeys(mt)
	d := sel(x.heapGet(st, dk, ds), m.S)
	// a nil map is empty in every state
	if m.S != "" && len(d) < 400 {
		x.sc.assert(implies(eq(m.S, "0"), eq(d, x.emptySet(mt))))
	}
	return d
}

func (x *Exec) mapLen(st *State, m Val) Term {
	mt := under(m.T).(*types.Map)
	ks := x.so.sortOf(mt.Key())
	d := x.mapDom(st, m)
	c := app("card_"+sanitize(ks), d)
	x.cardFacts(ks, d)
	return c
}

func (x *Exec) cardFacts(ks string, d Term) {
	c := app("card_"+sanitize(ks), d)
	x.sc.assert(le("0", c))
	// card == 0 <=> empty
	x.sc.assert(fmt.Sprintf("(= (= %s 0) (forall ((k %s)) (! (not (select %s k)) :pattern ((select %s k)))))", c, ks, d, d))
}

func (x *Exec) mapUpdate(fr *Frame, t *ssa.MapUpdate, st *State, reach Term) {
	m := x.val(fr, t.Map)
	k := x.val(fr, t.Key)
	v := x.val(fr, t.Value)
	mt := under(m.T).(*types.Map)
	dk, ds, vk, vs := x.mapKeys(mt)
	x.oblige("panic", "nilmap", implies(reach, not(eq(m.S, "0"))), t.Pos(), "write to nil map")
	h := x.heapGet(st, dk, ds)
	oldDom := sel(h, m.S)
	newDom := x.name("dom", "(Array "+x.so.sortOf(mt.Key())+" Bool)", store(oldDom, k.S, "true"))
	st.heap[dk] = x.name("h", ds, store(h, m.S, newDom))
	ksrt := sanitize(x.so.sortOf(mt.Key()))
	x.sc.assert(eq(app("card_"+ksrt, newDom), add(app("card_"+ksrt, oldDom), ite(sel(oldDom, k.S), "0", "1"))))
	x.sc.assert(le("0", app("card_"+ksrt, oldDom)))
	if x.so.sortOf(mt.Elem()) != "Unit" {
		hv := x.heapGet(st, vk, vs)
		st.heap[vk] = x.name("h", vs, store(hv, m.S, store(sel(hv, m.S), k.S, v.S)))
	}
}

func (x *Exec) mapDelete(st *State, m Val, k Val) {
	mt := under(m.T).(*types.Map)
	dk, ds, _, _ := x.mapKeys(mt)
	h := x.heapGet(st, dk, ds)
	oldDom := sel(h, m.S)
	newDom := x.name("dom", "(Array "+x.so.sortOf(mt.Key())+" Bool)", store(oldDom, k.S, "false"))
	st.heap[dk] = x.name("h", ds, store(h, m.S, newDom))
	ksrt := sanitize(x.so.sortOf(mt.Key()))
	x.sc.assert(eq(app("card_"+ksrt, newDom), sub(app("card_"+ksrt, oldDom), ite(sel(oldDom, k.S), "1", "0"))))
	x.sc.assert(le("0", app("card_"+ksrt, newDom)))
}

func (x *Exec) lookup(fr *Frame, t *ssa.Lookup, st *State, reach Term) Val {
	m := x.val(fr, t.X)
	k := x.val(fr, t.Index)
	mt, ok := under(m.T).(*types.Map)
	if !ok {
		x.fail("Lookup on %s", m.T)
	}
	dk, ds, vk, vs := x.mapKeys(mt)
	present := sel(sel(x.heapGet(st, dk, ds), m.S), k.S)
	var v Term
	if x.so.sortOf(mt.Elem()) == "Unit" {
		v = "unit"
	} else {
		v = ite(present, sel(sel(x.heapGet(st, vk, vs), m.S), k.S), x.so.zero(mt.Elem()))
	}
	if t.CommaOk {
		return Val{T: t.Type(), Tup: []Val{{T: mt.Elem(), S: v}, {T: types.Typ[types.Bool], S: present}}}
	}
	return Val{T: t.Type(), S: v}
}

// Range over a map: ghost visited set that grows by one arbitrary unvisited key per Next.
type rangeState struct {
	m       Val
	visited int // cell id holding the visited set
	ksort   string
}

func (x *Exec) rangeInit(fr *Frame, t *ssa.Range, st *State) Val {
	m := x.val(fr, t.X)
	mt, ok := under(m.T).(*types.Map)
	if !ok {
		x.fail("range over %s", m.T)
	}
	ks := x.so.sortOf(mt.Key())
	c := x.newCell(nil)
	x.cellSort[c] = "(Array " + ks + " Bool)"
	x.cellZeroT[c] = x.emptySet(mt)
	st.cells[c] = x.emptySet(mt)
	x.ranges[t] = &rangeState{m: m, visited: c, ksort: ks}
	return Val{T: t.Type(), S: "0"}
}

func (x *Exec) rangeNext(fr *Frame, t *ssa.Next, st *State, reach Term) Val {
	rg, ok := t.Iter.(*ssa.Range)
	if !ok {
		x.fail("next on non-range")
	}
	rs := x.ranges[rg]
	if rs == nil {
		x.fail("next before range")
	}
	mt := under(rs.m.T).(*types.Map)
	dom := x.mapDom(st, rs.m)
	vis := st.cells[rs.visited]
	okc := x.sc.freshConst("rng_ok", "Bool")
	k := x.sc.freshConst("rng_k", rs.ksort)
	if rf := rangeFact(mt.Key(), k); rf != "" {
		x.sc.assert(rf)
	}
	// ok => k in dom \ visited ; !ok => visited == dom (extensionally)
	x.assumeHere(implies(okc, and(sel(dom, k), not(sel(vis, k)))))
	x.assumeHere(implies(not(okc), fmt.Sprintf("(forall ((kk %s)) (! (= (select %s kk) (select %s kk)) :pattern ((select %s kk)) :pattern ((select %s kk))))", rs.ksort, vis, dom, vis, dom)))
	nv := x.name("vis", "(Array "+rs.ksort+" Bool)", ite(okc, store(vis, k, "true"), vis))
	st.cells[rs.visited] = nv
	tup := []Val{{T: types.Typ[types.Bool], S: okc}, {T: mt.Key(), S: k}}
	if x.so.sortOf(mt.Elem()) == "Unit" {
		tup = append(tup, Val{T: mt.Elem(), S: "unit"})
	} else {
		_, _, vk, vs := x.mapKeys(mt)
		tup = append(tup, Val{T: mt.Elem(), S: sel(sel(x.heapGet(st, vk, vs), rs.m.S), k)})
	}
	return Val{T: t.Type(), Tup: tup}
}
