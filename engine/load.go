package main

import (
	"fmt"
	"go/ast"
	"go/token"
	"go/types"
	"os"
	"sort"
	"strings"

	"golang.org/x/tools/go/packages"
	"golang.org/x/tools/go/ssa"
	"golang.org/x/tools/go/ssa/ssautil"
)

// Program is the loaded /repo working tree: typed syntax, SSA and contracts.
type Program struct {
	Fset  *token.FileSet
	Pkgs  []*packages.Package
	SSA   *ssa.Program
	ByPkg map[string]*ssa.Package // by package path
	TPkg  map[string]*types.Package
	// all functions (incl. methods and anonymous) of the module by qualified name
	Funcs map[string]*ssa.Function
	// source text of contract blocks per package path
	ContractSrc map[string][]contractBlock
	ModPath     string
}

type contractBlock struct {
	File string
	Line int
	Text string
}

const modPath = "github.com/klev-dev/klevdb"

func loadProgram(repo string) (*Program, error) {
	cfg := &packages.Config{
		Mode:       packages.LoadAllSyntax,
		Dir:        repo,
		BuildFlags: []string{"-tags=verif"},
		Tests:      false,
		Env: append(os.Environ(), "PATH=/opt/veriftools/go1.26.8/bin:"+os.Getenv("PATH"),
			"GOFLAGS=-mod=mod", "GOPROXY=off", "GOSUMDB=off", "GOTOOLCHAIN=local"),
	}
	pkgs, err := packages.Load(cfg, "./...")
	if err != nil {
		return nil, err
	}
	var errs []string
	packages.Visit(pkgs, nil, func(p *packages.Package) {
		if !strings.HasPrefix(p.PkgPath, modPath) {
			return
		}
		for _, e := range p.Errors {
			errs = append(errs, e.Error())
		}
	})
	if len(errs) > 0 {
		return nil, fmt.Errorf("load errors:\n%s", strings.Join(errs, "\n"))
	}
	prog, spkgs := ssautil.AllPackages(pkgs, ssa.GlobalDebug|ssa.BareInits)
	prog.Build()
	p := &Program{
		Fset:        prog.Fset,
		Pkgs:        pkgs,
		SSA:         prog,
		ByPkg:       map[string]*ssa.Package{},
		TPkg:        map[string]*types.Package{},
		Funcs:       map[string]*ssa.Function{},
		ContractSrc: map[string][]contractBlock{},
		ModPath:     modPath,
	}
	for i, sp := range spkgs {
		if sp == nil {
			continue
		}
		p.ByPkg[pkgs[i].PkgPath] = sp
	}
	packages.Visit(pkgs, nil, func(pk *packages.Package) {
		p.TPkg[pk.PkgPath] = pk.Types
	})
	for _, sp := range prog.AllPackages() {
		if sp.Pkg != nil {
			p.ByPkg[sp.Pkg.Path()] = sp
		}
	}
	// functions of the module
	for fn := range ssautil.AllFunctions(prog) {
		if fn.Pkg == nil || !strings.HasPrefix(fn.Pkg.Pkg.Path(), modPath) {
			continue
		}
		if fn.Synthetic != "" && fn.Origin() != nil {
			continue // instantiation wrappers
		}
		p.Funcs[funcKey(fn)] = fn
	}
	// methods of generic types (not enumerated above unless instantiated): the generic bodies
	for _, sp := range prog.AllPackages() {
		if sp.Pkg == nil || !strings.HasPrefix(sp.Pkg.Path(), modPath) {
			continue
		}
		for _, m := range sp.Members {
			tm, ok := m.(*ssa.Type)
			if !ok {
				continue
			}
			nt, ok := tm.Type().(*types.Named)
			if !ok || nt.TypeParams().Len() == 0 {
				continue
			}
			for i := 0; i < nt.NumMethods(); i++ {
				if fn := prog.FuncValue(nt.Method(i)); fn != nil && len(fn.Blocks) > 0 {
					if _, have := p.Funcs[funcKey(fn)]; !have {
						p.Funcs[funcKey(fn)] = fn
					}
				}
			}
		}
	}
	// contract comments
	for _, pk := range pkgs {
		if !strings.HasPrefix(pk.PkgPath, modPath) {
			continue
		}
		for _, f := range pk.Syntax {
			fname := prog.Fset.Position(f.Pos()).Filename
			if !strings.HasPrefix(baseName(fname), "verif_") {
				continue
			}
			for _, cg := range f.Comments {
				for _, c := range cg.List {
					if strings.HasPrefix(c.Text, "/*@") {
						txt := strings.TrimSuffix(strings.TrimPrefix(c.Text, "/*@"), "*/")
						txt = strings.TrimSuffix(txt, "@")
						p.ContractSrc[pk.PkgPath] = append(p.ContractSrc[pk.PkgPath], contractBlock{
							File: fname, Line: prog.Fset.Position(c.Pos()).Line, Text: txt,
						})
					}
				}
			}
		}
	}
	return p, nil
}

func baseName(p string) string {
	if i := strings.LastIndex(p, "/"); i >= 0 {
		return p[i+1:]
	}
	return p
}

// funcKey gives the stable name used in contracts and obligation names:
//
//	pkg.Func, pkg.(T).M, pkg.(*T).M, pkg.Func$1
func funcKey(fn *ssa.Function) string {
	pkg := ""
	if fn.Pkg != nil {
		pkg = shortPkg(fn.Pkg.Pkg.Path())
	} else if fn.Object() != nil && fn.Object().Pkg() != nil {
		pkg = shortPkg(fn.Object().Pkg().Path())
	}
	if fn.Parent() != nil {
		return funcKey(fn.Parent()) + "$" + strings.TrimPrefix(fn.Name(), fn.Parent().Name()+"$")
	}
	if recv := fn.Signature.Recv(); recv != nil {
		t := recv.Type()
		star := ""
		if pt, ok := t.(*types.Pointer); ok {
			star = "*"
			t = pt.Elem()
		}
		name := "?"
		if nt, ok := t.(*types.Named); ok {
			name = nt.Obj().Name()
		}
		return fmt.Sprintf("%s.(%s%s).%s", pkg, star, name, fn.Name())
	}
	return pkg + "." + fn.Name()
}

func shortPkg(path string) string {
	if path == modPath {
		return "klevdb"
	}
	if strings.HasPrefix(path, modPath+"/pkg/") {
		return strings.TrimPrefix(path, modPath+"/pkg/")
	}
	return path
}

func longPkg(short string) string {
	switch short {
	case "klevdb":
		return modPath
	case "index", "message", "segment", "notify", "kdir":
		return modPath + "/pkg/" + short
	}
	return short
}

func (p *Program) sortedFuncKeys() []string {
	var ks []string
	for k := range p.Funcs {
		ks = append(ks, k)
	}
	sort.Strings(ks)
	return ks
}

// pkgLevelErrorInit describes how a package-level error variable is initialised.
type errInit struct {
	Name  string   // qualified: pkgpath.Name
	Wraps []string // qualified names of wrapped package-level errors (from %w arguments)
	Kind  string   // "new" | "errorf"
}

// collectErrorInits walks the module's package-level var declarations and
// extracts the wrap graph of sentinel errors from their initialisers.
func (p *Program) collectErrorInits() []errInit {
	var out []errInit
	for _, pk := range p.Pkgs {
		if !strings.HasPrefix(pk.PkgPath, modPath) {
			continue
		}
		for _, f := range pk.Syntax {
			for _, d := range f.Decls {
				gd, ok := d.(*ast.GenDecl)
				if !ok || gd.Tok != token.VAR {
					continue
				}
				for _, sp := range gd.Specs {
					vs := sp.(*ast.ValueSpec)
					for i, nm := range vs.Names {
						obj := pk.TypesInfo.Defs[nm]
						if obj == nil || !isErrorType(obj.Type()) {
							continue
						}
						if i >= len(vs.Values) {
							continue
						}
						ei := errInit{Name: pk.PkgPath + "." + nm.Name}
						switch v := vs.Values[i].(type) {
						case *ast.CallExpr:
							callee := exprString(v.Fun)
							switch callee {
							case "errors.New":
								ei.Kind = "new"
							case "fmt.Errorf":
								ei.Kind = "errorf"
								for _, a := range v.Args[1:] {
									if o := identObj(pk, a); o != nil && isErrorType(o.Type()) && o.Pkg() != nil {
										ei.Wraps = append(ei.Wraps, o.Pkg().Path()+"."+o.Name())
									}
								}
							default:
								ei.Kind = "other"
							}
						case *ast.Ident, *ast.SelectorExpr:
							// alias: var ErrX = message.ErrX
							if o := identObj(pk, v); o != nil && o.Pkg() != nil {
								ei.Kind = "alias"
								ei.Wraps = []string{o.Pkg().Path() + "." + o.Name()}
							}
						}
						out = append(out, ei)
					}
				}
			}
		}
	}
	return out
}

func identObj(pk *packages.Package, e ast.Expr) types.Object {
	switch v := e.(type) {
	case *ast.Ident:
		return pk.TypesInfo.Uses[v]
	case *ast.SelectorExpr:
		return pk.TypesInfo.Uses[v.Sel]
	}
	return nil
}

func exprString(e ast.Expr) string {
	switch v := e.(type) {
	case *ast.Ident:
		return v.Name
	case *ast.SelectorExpr:
		return exprString(v.X) + "." + v.Sel.Name
	}
	return "?"
}

func isErrorType(t types.Type) bool {
	return types.Identical(t, types.Universe.Lookup("error").Type())
}
