package main

import (
	"fmt"
	"go/token"
	"strings"
)

// Lock discipline (C08): ghost lock state held[addr] in {0 free, 1 read, 2 write}.
// Active only when the function contract carries flag `locks`.

func (x *Exec) addrFn(key string) string {
	fn := "addr_" + sanitize(key)
	x.sc.declFun(fn, []string{"Int"}, "Int")
	x.sc.declare("ax:"+fn, fmt.Sprintf("(assert (forall ((a Int) (b Int)) (! (=> (= (%s a) (%s b)) (= a b)) :pattern ((%s a) (%s b)))))", fn, fn, fn, fn))
	return fn
}

func (x *Exec) addrTerm(l *Loc) Term { return app(x.addrFn(l.Key), l.Ref) }

const heldKey = "X:held"
const heldSort = "(Array Int Int)"

func (x *Exec) heldTerm(st *State, lock Val) Term {
	x.heapBase(heldKey, heldSort)
	return sel(x.heapGet(st, heldKey, heldSort), lock.S)
}

func (x *Exec) lockOp(b *bctx, mode string, acquire bool) {
	if !x.flags["locks"] {
		return
	}
	p := b.args[0]
	if p.L == nil || p.L.Kind != lField {
		x.fail("lock operation on a lock that is not a struct field")
	}
	a := x.addrTerm(p.L)
	x.heapBase(heldKey, heldSort)
	h := x.heapGet(b.st, heldKey, heldSort)
	cur := sel(h, a)
	want := "2"
	if mode == "R" {
		want = "1"
	}
	fld := p.L.Key[strings.LastIndex(p.L.Key, "_")+1:]
	if acquire {
		x.oblige("lock", "acquire-free@"+fld, implies(b.reach, eq(cur, "0")), b.pos, "lock is not already held by this call (self-deadlock)")
		b.st.heap[heldKey] = x.name("held", heldSort, store(h, a, want))
	} else {
		x.oblige("lock", "release-held@"+fld, implies(b.reach, eq(cur, want)), b.pos, "unlock matches a lock held in that mode")
		b.st.heap[heldKey] = x.name("held", heldSort, store(h, a, "0"))
	}
}

func (e *Engine) guardOf(x *Exec, key string) string {
	for _, g := range e.cs.Guards {
		tn := e.pkgByShort(g.Pkg).Scope().Lookup(g.Type)
		if tn == nil {
			continue
		}
		si := x.so.structOf(tn.Type())
		if si == nil {
			continue
		}
		if key == "F:"+si.Sort+"."+g.Field {
			return "F:" + si.Sort + "." + g.Lock
		}
	}
	return ""
}

// lockCheck: accesses to guarded fields need the guarding lock (read: R or W, write: W),
// except on objects allocated by this very call (not yet shared).
func (x *Exec) lockCheck(st *State, l *Loc, write bool, reach Term, pos token.Pos) {
	if !x.flags["locks"] || l.Kind != lField {
		return
	}
	g := x.eng.guardOf(x, l.Key)
	if g == "" {
		return
	}
	x.heapBase(heldKey, heldSort)
	cur := sel(x.heapGet(st, heldKey, heldSort), app(x.addrFn(g), l.Ref))
	min, kind := "1", "read"
	if write {
		min, kind = "2", "write"
	}
	fld := l.Key[strings.Index(l.Key, "_")+1:]
	x.oblige("lock", kind+"@"+fld, implies(reach, or(le(min, cur), lt(x.allocBase0, l.Ref))), pos,
		fmt.Sprintf("%s of guarded field %s holds %s", kind, fld, g[strings.LastIndex(g, ".")+1:]))
}
