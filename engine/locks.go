package main

import (
	"fmt"
	"go/token"
	"go/types"
	"strings"

	"golang.org/x/tools/go/ssa"
)

// Lock discipline (C08): ghost lock state held[addr] in {0 free, 1 read, 2 write}.
// Active only when the function contract carries flag `locks`.

// lockAddr encodes the address of lock field `key` of object ref injectively: ref*64 + field id.
func (x *Exec) lockAddr(key string, ref Term) Term {
	if x.lockIDs == nil {
		x.lockIDs = map[string]int{}
	}
	id, ok := x.lockIDs[key]
	if !ok {
		id = len(x.lockIDs) + 1
		x.lockIDs[key] = id
	}
	return fmt.Sprintf("(+ (* %s 64) %d)", ref, id)
}

func (x *Exec) addrTerm(l *Loc) Term { return x.lockAddr(l.Key, l.Ref) }

const heldKey = "X:held"
const heldSort = "(Array Int Int)"

func (x *Exec) heldTerm(st *State, lock Val) Term {
	x.heapBase(heldKey, heldSort)
	return sel(x.heapGet(st, heldKey, heldSort), lock.S)
}

func (x *Exec) lockOp(b *bctx, mode string, acquire bool) {
	if !x.flags["locks"] {
		return
	}
	p := b.args[0]
	if p.L == nil || p.L.Kind != lField {
		x.fail("lock operation on a lock that is not a struct field")
	}
	a := x.addrTerm(p.L)
	x.heapBase(heldKey, heldSort)
	h := x.heapGet(b.st, heldKey, heldSort)
	cur := sel(h, a)
	want := "2"
	if mode == "R" {
		want = "1"
	}
	fld := p.L.Key[strings.LastIndex(p.L.Key, "_")+1:]
	if acquire {
		x.oblige("lock", "acquire-free@"+fld, implies(b.reach, eq(cur, "0")), b.pos, "lock is not already held by this call (self-deadlock)")
		b.st.heap[heldKey] = x.name("held", heldSort, store(h, a, want))
	} else {
		x.oblige("lock", "release-held@"+fld, implies(b.reach, eq(cur, want)), b.pos, "unlock matches a lock held in that mode")
		b.st.heap[heldKey] = x.name("held", heldSort, store(h, a, "0"))
	}
}

func (e *Engine) guardWritesOnly(x *Exec, key string) bool {
	for _, g := range e.cs.Guards {
		if !g.WritesOnly {
			continue
		}
		tn := e.pkgByShort(g.Pkg).Scope().Lookup(g.Type)
		if tn == nil {
			continue
		}
		if si := x.so.structOf(tn.Type()); si != nil && key == "F:"+si.Sort+"."+g.Field {
			return true
		}
	}
	return false
}

func (e *Engine) guardOf(x *Exec, key string) string {
	for _, g := range e.cs.Guards {
		tn := e.pkgByShort(g.Pkg).Scope().Lookup(g.Type)
		if tn == nil {
			continue
		}
		si := x.so.structOf(tn.Type())
		if si == nil {
			continue
		}
		if key == "F:"+si.Sort+"."+g.Field {
			return "F:" + si.Sort + "." + g.Lock
		}
	}
	return ""
}

// lockCheck: accesses to guarded fields need the guarding lock (read: R or W, write: W),
// except on objects allocated by this very call (not yet shared).
func (x *Exec) lockCheck(st *State, l *Loc, write bool, reach Term, pos token.Pos) {
	if !x.flags["locks"] || l.Kind != lField {
		return
	}
	g := x.eng.guardOf(x, l.Key)
	if g == "" {
		return
	}
	if !write && x.eng.guardWritesOnly(x, l.Key) {
		return
	}
	x.heapBase(heldKey, heldSort)
	cur := sel(x.heapGet(st, heldKey, heldSort), x.lockAddr(g, l.Ref))
	min, kind := "1", "read"
	if write {
		min, kind = "2", "write"
	}
	fld := l.Key[strings.Index(l.Key, "_")+1:]
	x.oblige("lock", kind+"@"+fld, implies(reach, or(le(min, cur), lt(x.allocBase0, l.Ref))), pos,
		fmt.Sprintf("%s of guarded field %s holds %s", kind, fld, g[strings.LastIndex(g, ".")+1:]))
}

// touchesLocks: does fn (transitively, within the module) call a sync mutex method or access a guarded field?
func (e *Engine) touchesLocks(x *Exec, fn *ssa.Function, depth int) bool {
	if e.lockTouch == nil {
		e.lockTouch = map[*ssa.Function]int{}
	}
	if v, ok := e.lockTouch[fn]; ok {
		return v == 1
	}
	e.lockTouch[fn] = 2 // in progress: assume no
	res := false
	for _, b := range fn.Blocks {
		for _, in := range b.Instrs {
			switch t := in.(type) {
			case *ssa.FieldAddr:
				if pt, ok := under(t.X.Type()).(*types.Pointer); ok {
					if si := x.so.structOf(pt.Elem()); si != nil {
						k, _ := x.fieldKey(si, t.Field)
						if e.guardOf(x, k) != "" {
							res = true
						}
					}
				}
			case ssa.CallInstruction:
				c := t.Common()
				if callee := c.StaticCallee(); callee != nil {
					n := fullName(callee)
					if strings.HasPrefix(n, "(*sync.Mutex)") || strings.HasPrefix(n, "(*sync.RWMutex)") {
						res = true
					} else if callee.Blocks != nil && strings.HasPrefix(pkgOf(callee), modPath) && depth < 8 {
						if e.touchesLocks(x, callee, depth+1) {
							res = true
						}
					}
				} else if c.IsInvoke() {
					// interface call: any implementation in the module may lock; be conservative for module interfaces
					if nt, ok := types.Unalias(c.Value.Type()).(*types.Named); ok && nt.Obj().Pkg() != nil && strings.HasPrefix(nt.Obj().Pkg().Path(), modPath) {
						res = true
					}
				} else {
					if mc, ok := c.Value.(*ssa.MakeClosure); ok {
						if e.touchesLocks(x, mc.Fn.(*ssa.Function), depth+1) {
							res = true
						}
					}
				}
			}
		}
	}
	if res {
		e.lockTouch[fn] = 1
	} else {
		e.lockTouch[fn] = 0
	}
	return res
}
