package main

import (
	"fmt"
	"go/ast"
	"go/types"
	"sort"

	"golang.org/x/tools/go/ssa"
)

// ---------------- write-set analysis (static, type based) ----------------

type writeSet struct {
	all   bool
	keys  map[string]bool
	cells map[*ssa.Alloc]bool
	// granular writes through loop-invariant slices / pointers: key -> SSA values
	regions map[string][]ssa.Value
	objects map[string][]ssa.Value
	loop    *loopInfo // when analysing a loop body: values defined outside are loop invariant
}

func newWriteSet() *writeSet {
	return &writeSet{keys: map[string]bool{}, cells: map[*ssa.Alloc]bool{}, regions: map[string][]ssa.Value{}, objects: map[string][]ssa.Value{}}
}

// invariantIn reports whether v is defined outside the loop being analysed.
func (w *writeSet) invariantIn(v ssa.Value) bool {
	if w.loop == nil {
		return false
	}
	switch u := v.(type) {
	case *ssa.Parameter, *ssa.Const, *ssa.Global, *ssa.FreeVar:
		return true
	case ssa.Instruction:
		if u.Block() == nil {
			return false
		}
		return !w.loop.body[u.Block().Index]
	}
	return false
}
func (w *writeSet) union(o *writeSet) {
	if o.all {
		w.all = true
	}
	for k := range o.keys {
		w.keys[k] = true
	}
	for c := range o.cells {
		w.cells[c] = true
	}
	for k, vs := range o.regions {
		w.regions[k] = append(w.regions[k], vs...)
	}
	for k, vs := range o.objects {
		w.objects[k] = append(w.objects[k], vs...)
	}
}

// addrRoot classifies the root of an address expression.
func (x *Exec) addrRoot(v ssa.Value, w *writeSet) {
	switch u := v.(type) {
	case *ssa.FieldAddr:
		switch u.X.(type) {
		case *ssa.FieldAddr, *ssa.IndexAddr, *ssa.Alloc:
			x.addrRoot(u.X, w)
			return
		}
		if fv, ok := u.X.(*ssa.FreeVar); ok {
			_ = fv
		}
		pt, ok := under(u.X.Type()).(*types.Pointer)
		if !ok {
			w.all = true
			return
		}
		si := x.so.structOf(pt.Elem())
		if si == nil {
			w.all = true
			return
		}
		k, _ := x.fieldKey(si, u.Field)
		if w.invariantIn(u.X) {
			w.objects[k] = append(w.objects[k], u.X)
		} else {
			w.keys[k] = true
		}
	case *ssa.IndexAddr:
		switch bt := under(u.X.Type()).(type) {
		case *types.Slice:
			k, _ := x.elemKey(bt.Elem())
			if w.invariantIn(u.X) {
				w.regions[k] = append(w.regions[k], u.X)
			} else {
				w.keys[k] = true
			}
		case *types.Pointer:
			if at, ok := under(bt.Elem()).(*types.Array); ok {
				k, _ := x.elemKey(at.Elem())
				w.keys[k] = true
			} else {
				w.all = true
			}
		}
	case *ssa.Alloc:
		w.cells[u] = true
		// an escaping struct alloc lives in the field arrays
		et := u.Type().(*types.Pointer).Elem()
		if si := x.so.structOf(et); si != nil && u.Heap && allocEscapes(u) {
			for i := range si.Fields {
				k, _ := x.fieldKey(si, i)
				w.keys[k] = true
			}
		}
	case *ssa.Global:
		w.keys["G:"+u.Pkg.Pkg.Path()+"."+u.Name()] = true
	case *ssa.FreeVar:
		// captured variable: a cell of an enclosing frame; find binding allocs conservatively
		w.keys["FREEVAR:"+u.Name()] = true
	default:
		// plain pointer value
		pt, ok := under(v.Type()).(*types.Pointer)
		if !ok {
			w.all = true
			return
		}
		if si := x.so.structOf(pt.Elem()); si != nil {
			for i := range si.Fields {
				k, _ := x.fieldKey(si, i)
				w.keys[k] = true
			}
			return
		}
		k, _ := x.derefKey(pt.Elem())
		w.keys[k] = true
	}
}

func (x *Exec) instrWrites(in ssa.Instruction, w *writeSet, depth int) {
	switch t := in.(type) {
	case *ssa.Store:
		x.addrRoot(t.Addr, w)
	case *ssa.MapUpdate:
		mt := under(t.Map.Type()).(*types.Map)
		dk, _, vk, _ := x.mapKeys(mt)
		if w.invariantIn(t.Map) {
			w.objects[dk] = append(w.objects[dk], t.Map)
			w.objects[vk] = append(w.objects[vk], t.Map)
		} else {
			w.keys[dk] = true
			w.keys[vk] = true
		}
	case *ssa.Call:
		x.callWrites(&t.Call, w, depth)
	case *ssa.Defer:
		x.callWrites(&t.Call, w, depth)
	case *ssa.Next:
		if rg, ok := t.Iter.(*ssa.Range); ok {
			w.keys[fmt.Sprintf("RANGE:%p", rg)] = true
		}
	}
}

func (x *Exec) callWrites(c *ssa.CallCommon, w *writeSet, depth int) {
	// pointer arguments rooted at local cells / elements are written by the callee
	for _, a := range c.Args {
		if isPointer(a.Type()) {
			switch a.(type) {
			case *ssa.Alloc, *ssa.FieldAddr, *ssa.IndexAddr:
				x.addrRoot(a, w)
			}
		}
	}
	if b, ok := c.Value.(*ssa.Builtin); ok {
		switch b.Name() {
		case "append", "copy":
			if st, ok := under(c.Args[0].Type()).(*types.Slice); ok {
				k, _ := x.elemKey(st.Elem())
				w.keys[k] = true
			}
		case "delete":
			mt := under(c.Args[0].Type()).(*types.Map)
			dk, _, _, _ := x.mapKeys(mt)
			if w.invariantIn(c.Args[0]) {
				w.objects[dk] = append(w.objects[dk], c.Args[0])
			} else {
				w.keys[dk] = true
			}
		}
		return
	}
	if c.IsInvoke() {
		key := x.ifaceKey(c)
		if _, ok := types.Unalias(c.Value.Type()).(*types.TypeParam); ok {
			return // methods of type parameters are modelled as pure functions of the receiver
		}
		if fc := x.eng.cs.Funcs[key]; fc != nil {
			x.contractWritesAt(fc, w, c)
			return
		}
		if x.eng.builtinInvoke(key) {
			x.eng.builtinWrites(x, key, c, w)
			return
		}
		w.all = true
		return
	}
	callee := c.StaticCallee()
	if callee == nil {
		// closure value or func field
		if mc, ok := c.Value.(*ssa.MakeClosure); ok {
			callee = mc.Fn.(*ssa.Function)
		} else if key := x.funcFieldKey(c.Value); key != "" {
			if fc := x.eng.cs.Funcs[key]; fc != nil {
				x.contractWritesAt(fc, w, c)
				return
			}
			w.all = true
			return
		} else if nt, ok := types.Unalias(c.Value.Type()).(*types.Named); ok && nt.Obj().Pkg() != nil && x.eng.cs.Funcs[shortPkg(nt.Obj().Pkg().Path())+"."+nt.Obj().Name()] != nil {
			x.contractWrites(x.eng.cs.Funcs[shortPkg(nt.Obj().Pkg().Path())+"."+nt.Obj().Name()], w)
			return
		} else {
			w.all = true
			return
		}
	}
	if callee.Origin() != nil {
		callee = callee.Origin()
	}
	key := funcKey(callee)
	if fc := x.eng.cs.Funcs[key]; fc != nil && !fc.Flags["inline"] {
		x.contractWritesAt(fc, w, c)
		return
	}
	if x.eng.hasBuiltin(callee) {
		x.eng.builtinWrites(x, fullName(callee), c, w)
		return
	}
	if callee.Blocks == nil || depth > 4 {
		w.all = true
		return
	}
	if cw, ok := x.eng.fnWrites[callee]; ok {
		if cw != nil {
			w.union(cw)
		}
		return
	}
	x.eng.fnWrites[callee] = nil // recursion guard
	cw := newWriteSet()
	for _, b := range callee.Blocks {
		for _, in := range b.Instrs {
			x.instrWrites(in, cw, depth+1)
		}
	}
	// local cells of the callee are irrelevant to the caller
	cw.cells = map[*ssa.Alloc]bool{}
	x.eng.fnWrites[callee] = cw
	w.union(cw)
}

// contractWritesAt: like contractWrites, but `*p` assigns whose argument at this call site is a static
// location (address of a local, a slice element, a field) are already covered by the argument analysis
// and do not add the type-wide heap field keys.
func (x *Exec) contractWritesAt(fc *FuncContract, w *writeSet, c *ssa.CallCommon) {
	if !fc.HasAssigns {
		return
	}
	filtered := *fc
	filtered.Assigns = nil
	sig, _ := x.eng.signatureOf(fc)
	for _, a := range fc.Assigns {
		if u, ok := a.(*CUn); ok && u.Op == "*" {
			if id, ok := u.X.(*CIdent); ok && sig != nil {
				idx := -1
				for i := 0; i < sig.Params().Len(); i++ {
					if sig.Params().At(i).Name() == id.Name {
						idx = i
					}
				}
				off := 0
				if sig.Recv() != nil && !c.IsInvoke() {
					off = 1
				}
				if idx >= 0 && idx+off < len(c.Args) {
					switch c.Args[idx+off].(type) {
					case *ssa.Alloc, *ssa.IndexAddr, *ssa.FieldAddr:
						continue
					}
				}
			}
		}
		filtered.Assigns = append(filtered.Assigns, a)
	}
	x.contractWrites(&filtered, w)
}

func (x *Exec) contractWrites(fc *FuncContract, w *writeSet) {
	if !fc.HasAssigns {
		return // default frame: assigns nothing
	}
	ks, all := x.eng.assignKeys(x, fc)
	if all {
		w.all = true
	}
	for _, k := range ks {
		w.keys[k] = true
	}
}

// ---------------- loops ----------------

func (x *Exec) loopWrites(fr *Frame, li *loopInfo) *writeSet {
	w := newWriteSet()
	w.loop = li
	var idx []int
	for b := range li.body {
		idx = append(idx, b)
	}
	sort.Ints(idx)
	for _, bi := range idx {
		for _, in := range fr.fn.Blocks[bi].Instrs {
			x.instrWrites(in, w, 0)
		}
	}
	return w
}

func (x *Exec) havoc(fr *Frame, st *State, w *writeSet) {
	if w.all {
		x.havocAll(st)
	}
	var ks []string
	for k := range w.keys {
		ks = append(ks, k)
	}
	sort.Strings(ks)
	for _, k := range ks {
		if len(k) > 6 && k[:6] == "RANGE:" {
			continue
		}
		srt, ok := x.heapSort[k]
		if !ok {
			continue
		}
		st.heap[k] = x.sc.freshConst("hv_"+k, srt)
		x.closure(k, st.heap[k], fmt.Sprintf("(+ %s %d)", x.allocBase, x.allocN))
	}
	var rks []string
	for k := range w.regions {
		rks = append(rks, k)
	}
	sort.Strings(rks)
	for _, k := range rks {
		if w.keys[k] || w.all {
			continue
		}
		srt, known := x.heapSort[k]
		if !known {
			continue
		}
		h := x.heapGet(st, k, srt)
		inner := srt[len("(Array Int ") : len(srt)-1]
		for _, sv := range w.regions[k] {
			v := x.val(fr, sv)
			h = store(h, app("s_reg", v.S), x.sc.freshConst("hv_reg", inner))
		}
		st.heap[k] = x.name("h", srt, h)
	}
	var oks []string
	for k := range w.objects {
		oks = append(oks, k)
	}
	sort.Strings(oks)
	for _, k := range oks {
		if w.keys[k] || w.all {
			continue
		}
		srt, known := x.heapSort[k]
		if !known {
			continue
		}
		h := x.heapGet(st, k, srt)
		inner := srt[len("(Array Int ") : len(srt)-1]
		for _, pv := range w.objects[k] {
			v := x.val(fr, pv)
			if v.S == "" {
				continue // static location: its cell is havocked through w.cells
			}
			h = store(h, v.S, x.sc.freshConst("hv_obj", inner))
		}
		st.heap[k] = x.name("h", srt, h)
	}
	for a := range w.cells {
		if l, ok := fr.cells[a]; ok {
			x.havocCell(st, l)
		} else if v, ok := fr.vals[a]; ok && v.L != nil && v.L.Kind == lCell {
			x.havocCell(st, v.L)
		}
	}
}

func (x *Exec) havocCell(st *State, l *Loc) {
	if l.ArrRegion != "" && l.ArrRegion != "0" {
		return // array cells: contents live in the E heap (havocked by key)
	}
	st.cells[l.Cell] = x.sc.freshConst("cell", x.cellSortOf(l.Cell))
}

func (x *Exec) cellSortOf(c int) string {
	if s, ok := x.cellSort[c]; ok {
		return s
	}
	return x.so.sortOf(x.cellT[c])
}

func (x *Exec) cellZero(c int) Term {
	if z, ok := x.cellZeroT[c]; ok {
		return z
	}
	return x.so.zero(x.cellT[c])
}

func (x *Exec) havocAll(st *State) {
	var heldPrev Term
	if _, ok := x.heapSort[heldKey]; ok {
		heldPrev = x.heapGet(st, heldKey, heldSort)
	}
	x.epoch++
	ep := x.epoch
	for k, srt := range x.heapSort {
		if len(k) > 2 && k[:2] == "G:" {
			continue // globals are immutable outside init (checked)
		}
		if k == heldKey {
			st.heap[k] = heldPrev // external / unknown code never touches klevdb's mutexes
			continue
		}
		st.heap[k] = x.sc.declConst(fmt.Sprintf("H%d_%s", ep, sanitize(k)), srt)
	}
	st.epoch = ep
}

func (x *Exec) loopHead(fr *Frame, b *ssa.BasicBlock, li *loopInfo, ins []edge, st *State, reach Term) *State {
	if !fr.isTop || x.fc == nil {
		x.fail("loop in %s needs a contract", funcKey(fr.fn))
	}
	lc := x.fc.Loops[li.n]
	if lc == nil {
		x.fail("loop %d of %s has no invariant", li.n, x.fnKey)
	}
	li.contract = lc
	// 1. phis bound to incoming (forward) values
	initVals := map[*ssa.Phi]Val{}
	var conds []Term
	for _, e := range ins {
		conds = append(conds, e.cond)
	}
	for _, in := range b.Instrs {
		phi, ok := in.(*ssa.Phi)
		if !ok {
			break
		}
		var vs []Val
		for _, e := range ins {
			for pi, p := range b.Preds {
				if p.Index == e.from {
					vs = append(vs, x.val(fr, phi.Edges[pi]))
					break
				}
			}
		}
		initVals[phi] = x.mergeVals(conds, vs)
	}
	// inv-init
	for _, in := range b.Instrs {
		if phi, ok := in.(*ssa.Phi); ok {
			fr.vals[phi] = initVals[phi]
		}
	}
	env := x.loopEnv(fr, b, st)
	for i, inv := range lc.Invariants {
		t, okc := x.trClause(fmt.Sprintf("L%d:%s", li.n, labelOr(inv.Label, i)), inv.Text, inv.Expr, env, b.Instrs[0].Pos())
		if !okc {
			continue
		}
		x.oblige("inv-init", fmt.Sprintf("L%d:%s", li.n, labelOr(inv.Label, i)), implies(reach, t), b.Instrs[0].Pos(), inv.Text)
	}
	// 2. havoc
	w := x.loopWrites(fr, li)
	x.havoc(fr, st, w)
	// range iterators whose Next is inside the loop
	for k := range w.keys {
		if len(k) > 6 && k[:6] == "RANGE:" {
			for rg, rs := range x.ranges {
				if fmt.Sprintf("RANGE:%p", rg) == k {
					st.cells[rs.visited] = x.sc.freshConst("vis", x.cellSortOf(rs.visited))
				}
			}
		}
	}
	// an arbitrary iteration: the allocation frontier has moved, every existing value lies below it
	{
		oldTop := fmt.Sprintf("(+ %s %d)", x.allocBase, x.allocN)
		nb := x.sc.freshConst("allocBase", "Int")
		x.sc.assert(le(oldTop, nb))
		x.allocBase = nb
		x.allocN = 0
	}
	li.phiVals = map[*ssa.Phi]Val{}
	for _, in := range b.Instrs {
		phi, ok := in.(*ssa.Phi)
		if !ok {
			break
		}
		iv := initVals[phi]
		if iv.S == "" {
			// static pointer / function: must be loop invariant
			fr.vals[phi] = iv
			continue
		}
		c := x.sc.freshConst("phi_"+phi.Comment, x.so.sortOf(phi.Type()))
		v := Val{T: phi.Type(), S: c}
		x.assumeRange(v)
		x.assumeAllocated(v)
		fr.vals[phi] = v
		li.phiVals[phi] = v
	}
	// 3. assume invariants
	env = x.loopEnv(fr, b, st)
	for i, inv := range lc.Invariants {
		if t, okc := x.trClause(fmt.Sprintf("L%d:%s", li.n, labelOr(inv.Label, i)), inv.Text, inv.Expr, env, b.Instrs[0].Pos()); okc {
			x.sc.assert(implies(reach, t))
		}
	}
	if lc.Decreases != nil {
		li.variant0 = x.name("variant", "Int", x.trTerm(lc.Decreases, env))
	}
	li.headState = st.clone()
	li.headReach = reach
	x.cover(fmt.Sprintf("L%d", li.n), reach, b.Instrs[0].Pos(), "loop head reachable with invariant")
	return st
}

func labelOr(l string, i int) string {
	if l != "" {
		return l
	}
	return fmt.Sprintf("%d", i+1)
}

func (x *Exec) loopBack(fr *Frame, from, to *ssa.BasicBlock, cond Term, st *State) {
	li := fr.loops[to.Index]
	lc := li.contract
	if lc == nil {
		x.fail("back edge to loop without contract")
	}
	// bind phis to the back-edge values
	saved := map[*ssa.Phi]Val{}
	for _, in := range to.Instrs {
		phi, ok := in.(*ssa.Phi)
		if !ok {
			break
		}
		saved[phi] = fr.vals[phi]
	}
	pi := -1
	for i, p := range to.Preds {
		if p == from {
			pi = i
		}
	}
	newVals := map[*ssa.Phi]Val{}
	for phi := range saved {
		newVals[phi] = x.val(fr, phi.Edges[pi])
	}
	for phi, v := range newVals {
		fr.vals[phi] = v
	}
	env := x.loopEnv(fr, to, st)
	for i, inv := range lc.Invariants {
		t, okc := x.trClause(fmt.Sprintf("L%d:%s", li.n, labelOr(inv.Label, i)), inv.Text, inv.Expr, env, from.Instrs[len(from.Instrs)-1].Pos())
		if !okc {
			continue
		}
		x.oblige("inv-pres", fmt.Sprintf("L%d:%s", li.n, labelOr(inv.Label, i)), implies(cond, t), from.Instrs[len(from.Instrs)-1].Pos(), inv.Text)
	}
	if lc.Decreases != nil {
		v1 := x.trTerm(lc.Decreases, env)
		x.oblige("dec", fmt.Sprintf("L%d", li.n), implies(cond, and(le("0", li.variant0), lt(v1, li.variant0))), from.Instrs[len(from.Instrs)-1].Pos(), "decreases "+lc.DecText)
	}
	for phi, v := range saved {
		fr.vals[phi] = v
	}
}

// ---------------- environments for contract expressions ----------------

type Env struct {
	inOld            bool
	freshLo, freshHi Term
	vars   map[string]Val
	cur    *State
	old    *State
	pkg    *types.Package
	fr     *Frame
	at     *ssa.BasicBlock
	lookup func(name string) (Val, bool)
	x      *Exec
}

func (e *Env) with(name string, v Val) *Env {
	n := *e
	n.vars = map[string]Val{}
	for k, vv := range e.vars {
		n.vars[k] = vv
	}
	n.vars[name] = v
	return &n
}

func (e *Env) inState(st *State) *Env {
	n := *e
	n.cur = st
	return &n
}

// loopEnv resolves source variable names at a loop header.
func (x *Exec) loopEnv(fr *Frame, head *ssa.BasicBlock, st *State) *Env {
	env := &Env{vars: map[string]Val{}, cur: st, old: x.old, pkg: fr.fn.Pkg.Pkg, fr: fr, at: head, x: x, freshLo: "allocBase0"}
	env.lookup = func(name string) (Val, bool) {
		return x.lookupVar(fr, head, len(head.Instrs), name, env.cur)
	}
	return env
}

// lookupVar finds the SSA value that holds source variable `name` at the
// given point: header phis by comment, parameters, then the nearest
// dominating DebugRef of an identifier with that name.
func (x *Exec) lookupVar(fr *Frame, b *ssa.BasicBlock, upto int, name string, st *State) (Val, bool) {
	if name == "visited" {
		// ghost visited set of the map range whose Next lives in this loop
		for rg, rs := range x.ranges {
			if rg.Parent() == fr.fn {
				return Val{T: nil, S: st.cells[rs.visited], GM: &ghostMap{KeySort: rs.ksort, Elem: tBool}}, true
			}
		}
	}
	// a variable that lives in memory (an Alloc named after it) is read from its cell in the CURRENT state:
	// an earlier value DebugRef of the same name only records what it held then
	for blk := b; blk != nil; blk = blk.Idom() {
		n := len(blk.Instrs)
		if blk == b {
			n = upto
		}
		for i := n - 1; i >= 0; i-- {
			if a, ok := blk.Instrs[i].(*ssa.Alloc); ok && a.Comment == name {
				if v, ok := fr.vals[a]; ok {
					return x.loadPtr(st, v), true
				}
			}
		}
	}
	for blk := b; blk != nil; blk = blk.Idom() {
		n := len(blk.Instrs)
		if blk == b {
			n = upto
		}
		for i := n - 1; i >= 0; i-- {
			switch t := blk.Instrs[i].(type) {
			case *ssa.DebugRef:
				id, ok := t.Expr.(*ast.Ident)
				if !ok || id.Name != name {
					continue
				}
				if tv, isVar := t.Object().(*types.Var); !isVar || tv.IsField() {
					continue // not a variable (x.f records a DebugRef for the field identifier f)
				}
				v, ok := fr.vals[t.X]
				if !ok {
					if c, isC := t.X.(*ssa.Const); isC {
						v = constVal(x, c)
					} else if _, isP := t.X.(*ssa.Parameter); isP {
						v = x.val(fr, t.X)
					} else {
						continue
					}
				}
				if t.IsAddr {
					r := x.loadPtr(st, v)
					return r, true
				}
				return v, true
			case *ssa.Phi:
				if t.Comment == name {
					if v, ok := fr.vals[t]; ok {
						return v, true
					}
				}
			case *ssa.Alloc:
				if t.Comment == name {
					if v, ok := fr.vals[t]; ok {
						return x.loadPtr(st, v), true
					}
				}
			}
		}
	}
	for _, p := range fr.fn.Params {
		if p.Name() == name {
			return fr.vals[p], true
		}
	}
	for i, fv := range fr.fn.FreeVars {
		if fv.Name() == name {
			v := fr.free[i]
			if isPointer(v.T) {
				return x.loadPtr(st, v), true
			}
			return v, true
		}
	}
	return Val{}, false
}

// assumeAllocated: a value that exists now refers only to objects allocated so far.
func (x *Exec) assumeAllocated(v Val) {
	if v.S == "" || v.T == nil {
		return
	}
	top := fmt.Sprintf("(+ %s %d)", x.allocBase, x.allocN)
	switch under(v.T).(type) {
	case *types.Pointer, *types.Map, *types.Chan:
		x.assumeHere(le(v.S, top))
	case *types.Slice:
		x.assumeHere(le(app("s_reg", v.S), top))
	}
}
