package main

import (
	"flag"
	"fmt"
	"os"
	"strings"
)

func setupEnv() {
	os.Setenv("PATH", "/opt/veriftools/go1.26.8/bin:"+os.Getenv("PATH"))
	os.Setenv("GOFLAGS", "-mod=mod")
	os.Setenv("GOPROXY", "off")
	os.Setenv("GOSUMDB", "off")
	os.Setenv("GOTOOLCHAIN", "local")
}

func main() {
	setupEnv()
	if len(os.Args) < 2 {
		fmt.Fprintln(os.Stderr, "usage: govc <ssa|verify|check|replay> ...")
		os.Exit(2)
	}
	switch os.Args[1] {
	case "ssa":
		p, err := loadProgram("/repo")
		if err != nil {
			fmt.Fprintln(os.Stderr, err)
			os.Exit(2)
		}
		if len(os.Args) == 2 {
			for _, k := range p.sortedFuncKeys() {
				fmt.Println(k)
			}
			return
		}
		for _, k := range os.Args[2:] {
			fn := p.Funcs[k]
			if fn == nil {
				fmt.Println("no such function", k)
				continue
			}
			fn.WriteTo(os.Stdout)
		}
	case "verify":
		fs := flag.NewFlagSet("verify", flag.ExitOnError)
		repo := fs.String("repo", "/repo", "repository")
		tier := fs.String("tier", "quick", "quick|thorough")
		dump := fs.String("dump", "", "directory to dump SMT scripts of failed obligations")
		trusted := fs.String("trusted", "/verif/trusted", "trusted specs dir")
		all := fs.Bool("all", false, "all functions with contracts")
		fs.Parse(os.Args[2:])
		p, err := loadProgram(*repo)
		if err != nil {
			fmt.Fprintln(os.Stderr, err)
			os.Exit(2)
		}
		eng, err := newEngine(p, *trusted)
		if err != nil {
			fmt.Fprintln(os.Stderr, err)
			os.Exit(2)
		}
		keys := fs.Args()
		if *all {
			keys = nil
			for _, k := range sortedKeys(eng.cs.Funcs) {
				if eng.cs.Funcs[k].Kind == "func" {
					keys = append(keys, k)
				}
			}
		}
		bad := 0
		for _, k := range keys {
			units := eng.unitsFor(k)
			for _, u := range units {
				res := eng.verifyUnit(u)
				name := u.key
				if u.prefix != "" {
					name += " [" + u.prefix + "]"
				}
				if res.Err != "" {
					fmt.Printf("%-50s ERROR %s\n", name, res.Err)
					bad++
					continue
				}
				dischargeAll(res.Script, *tier, solverWorkers())
				nok := 0
				for _, o := range res.Script.obls {
					if o.ok() {
						nok++
					}
				}
				var tot, mx int64
				for _, o := range res.Script.obls {
					tot += o.Millis
					if o.Millis > mx {
						mx = o.Millis
					}
				}
				fmt.Printf("%-50s %d/%d obligations (solver %dms total, max %dms)\n", name, nok, len(res.Script.obls), tot, mx)
				if os.Getenv("GOVC_V") != "" {
					for _, o := range res.Script.obls {
						fmt.Printf("   %-8s %-60s %s %dms\n", o.Verdict, o.Name, o.Solver, o.Millis)
					}
				}
				for _, o := range res.Script.obls {
					if o.ok() && *dump != "" && os.Getenv("GOVC_DUMPALL") != "" {
						os.MkdirAll(*dump, 0755)
						fn := *dump + "/" + strings.NewReplacer("/", "_", "*", "", "(", "", ")", "", ":", "_").Replace(o.Name) + ".smt2"
						os.WriteFile(fn, []byte(res.Script.text(o, true)), 0644)
					}
					if !o.ok() {
						bad++
						fmt.Printf("   FAIL %-60s %s (%s, %dms) @%s\n        %s\n", o.Name, o.Verdict, o.Solver, o.Millis, o.Pos, o.Text)
						if *dump != "" {
							os.MkdirAll(*dump, 0755)
							fn := *dump + "/" + strings.NewReplacer("/", "_", "*", "", "(", "", ")", "", ":", "_").Replace(o.Name) + ".smt2"
							os.WriteFile(fn, []byte(res.Script.text(o, true)), 0644)
							if o.Model != "" {
								os.WriteFile(fn+".model", []byte(o.Model), 0644)
							}
						}
					}
				}
				for _, n := range res.Notes {
					fmt.Printf("   note: %s\n", n)
				}
			}
		}
		if bad > 0 {
			os.Exit(1)
		}
	case "check":
		os.Exit(runCheck(os.Args[2:]))
	default:
		fmt.Fprintln(os.Stderr, "unknown command")
		os.Exit(2)
	}
}

type unit struct {
	key     string
	against *FuncContract
	prefix  string
	caseIdx int // 1-based case of a `split` contract, 0 = none
}

// unitsFor lists the verification units of a function: its own contract and
// one refinement unit per `refines` clause.
func (e *Engine) unitsFor(key string) []unit {
	us := []unit{{key: key}}
	if fc := e.cs.Funcs[key]; fc != nil && len(fc.Cases) > 0 {
		us = nil
		for i := range fc.Cases {
			us = append(us, unit{key: key, caseIdx: i + 1, prefix: "case:" + labelOr(fc.Cases[i].Label, i)})
		}
	}
	if fc := e.cs.Funcs[key]; fc != nil {
		for _, r := range fc.Refines {
			if a := e.cs.Funcs[r]; a != nil {
				us = append(us, unit{key: key, against: a, prefix: "refines:" + r})
			} else {
				us = append(us, unit{key: key, against: &FuncContract{Key: r, Kind: "missing"}, prefix: "refines:" + r})
			}
		}
	}
	return us
}
