package main

// tryReplay attempts to turn a failed obligation into a failing input for the
// real code. Returns nil when no concrete replay is available for this kind
// of obligation (the VIOLATION line then ends with no-failing-input-found).
func tryReplay(eng *Engine, repo, verif string, rf *replayFile) *replayResult {
	return nil
}
