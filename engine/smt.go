package main

import (
	"fmt"
	"go/types"
	"sort"
	"strings"
)

// Term is SMT-LIB text.
type Term = string

// Obligation is one proof obligation: under the first Cut assertions of the
// script, Goal must be valid.
type Obligation struct {
	Name   string // stable name: pkg.Func/kind:label
	Func   string
	Kind   string // post, pre, inv-init, inv-pres, dec, panic, frame, refines, lemma, lock, order, cover, ...
	Label  string
	Goal   Term
	Cut    int
	Pos    string // source position of the code point
	Text   string // clause text (contract source) or description
	Cover  bool   // vacuity guard: must be SAT
	Extras []string // extra assertions local to this obligation
	goalIdx int     // index in Script.asserts of the goal assumed after this obligation
	KnownFinding bool

	// results
	Verdict string // unsat | sat | unknown | timeout | error
	Solver  string
	Millis  int64
	Model   string
	Output  string
}

// Script accumulates declarations and assertions for one function body.
type Script struct {
	decls    []string
	declared map[string]bool
	asserts  []string
	obls     []*Obligation
	fresh    int
	notes    []string // abstraction notes (havocked calls etc.)
}

func newScript() *Script {
	return &Script{declared: map[string]bool{}}
}

func (s *Script) declare(key, text string) {
	if s.declared[key] {
		return
	}
	s.declared[key] = true
	s.decls = append(s.decls, text)
}

func (s *Script) declConst(name, sort string) Term {
	s.declare("c:"+name, fmt.Sprintf("(declare-fun %s () %s)", name, sort))
	return name
}

func (s *Script) freshConst(prefix, sort string) Term {
	s.fresh++
	name := fmt.Sprintf("%s!%d", sanitize(prefix), s.fresh)
	return s.declConst(name, sort)
}

func (s *Script) declFun(name string, args []string, ret string) {
	s.declare("f:"+name, fmt.Sprintf("(declare-fun %s (%s) %s)", name, strings.Join(args, " "), ret))
}

func (s *Script) assert(t Term) {
	if t == "" || t == "true" {
		return
	}
	s.asserts = append(s.asserts, t)
}

func (s *Script) note(format string, a ...any) {
	n := fmt.Sprintf(format, a...)
	for _, x := range s.notes {
		if x == n {
			return
		}
	}
	s.notes = append(s.notes, n)
}

func sanitize(s string) string {
	var b strings.Builder
	for _, r := range s {
		switch {
		case r >= 'a' && r <= 'z', r >= 'A' && r <= 'Z', r >= '0' && r <= '9', r == '_', r == '.', r == '!', r == '$':
			b.WriteRune(r)
		default:
			b.WriteRune('_')
		}
	}
	return b.String()
}

// ---- term helpers ----

func and(ts ...Term) Term {
	var xs []Term
	for _, t := range ts {
		if t == "" || t == "true" {
			continue
		}
		if t == "false" {
			return "false"
		}
		xs = append(xs, t)
	}
	switch len(xs) {
	case 0:
		return "true"
	case 1:
		return xs[0]
	}
	return "(and " + strings.Join(xs, " ") + ")"
}

func or(ts ...Term) Term {
	var xs []Term
	for _, t := range ts {
		if t == "" || t == "false" {
			continue
		}
		if t == "true" {
			return "true"
		}
		xs = append(xs, t)
	}
	switch len(xs) {
	case 0:
		return "false"
	case 1:
		return xs[0]
	}
	return "(or " + strings.Join(xs, " ") + ")"
}

func not(t Term) Term {
	switch t {
	case "true":
		return "false"
	case "false":
		return "true"
	}
	if strings.HasPrefix(t, "(not ") && balanced(t[5:len(t)-1]) {
		return t[5 : len(t)-1]
	}
	return "(not " + t + ")"
}

func balanced(s string) bool {
	d := 0
	for _, c := range s {
		if c == '(' {
			d++
		} else if c == ')' {
			d--
			if d < 0 {
				return false
			}
		}
	}
	return d == 0
}

func implies(a, b Term) Term {
	if a == "true" {
		return b
	}
	if b == "true" || a == "false" {
		return "true"
	}
	return "(=> " + a + " " + b + ")"
}

func eq(a, b Term) Term {
	if a == b {
		return "true"
	}
	return "(= " + a + " " + b + ")"
}
func ite(c, a, b Term) Term {
	if c == "true" {
		return a
	}
	if c == "false" {
		return b
	}
	if a == b {
		return a
	}
	return "(ite " + c + " " + a + " " + b + ")"
}
func sel(a, i Term) Term      { return "(select " + a + " " + i + ")" }
func store(a, i, v Term) Term { return "(store " + a + " " + i + " " + v + ")" }
func app(f string, args ...Term) Term {
	if len(args) == 0 {
		return f
	}
	return "(" + f + " " + strings.Join(args, " ") + ")"
}
func intLit(n int64) Term {
	if n < 0 {
		if n == -9223372036854775808 {
			return "(- 9223372036854775808)"
		}
		return fmt.Sprintf("(- %d)", -n)
	}
	return fmt.Sprintf("%d", n)
}
func uintLit(n uint64) Term { return fmt.Sprintf("%d", n) }
func add(a, b Term) Term {
	if b == "0" {
		return a
	}
	if a == "0" {
		return b
	}
	return "(+ " + a + " " + b + ")"
}
func sub(a, b Term) Term {
	if b == "0" {
		return a
	}
	return "(- " + a + " " + b + ")"
}
func le(a, b Term) Term { return "(<= " + a + " " + b + ")" }
func lt(a, b Term) Term { return "(< " + a + " " + b + ")" }

// ---- sorts ----

const preludeSMT = `
(declare-sort Str 0)
(declare-sort Err 0)
(declare-sort Time 0)
(declare-sort BSeq 0)
(declare-datatypes ((Slice 0)) (((mk_slice (s_reg Int) (s_off Int) (s_len Int) (s_cap Int)))))
(declare-datatypes ((Iface 0)) (((mk_iface (i_tag Int) (i_val Int)))))
(declare-datatypes ((Unit 0)) (((unit))))
(declare-fun nilErr () Err)
(declare-fun wraps (Err Err) Bool)
(declare-fun zeroTime () Time)
(declare-fun unixMicro (Time) Int)
(declare-fun timeOfMicro (Int) Time)
(declare-fun timeIsZero (Time) Bool)
(declare-fun timeAfter (Time Time) Bool)
(declare-fun emptyStr () Str)
(define-fun nilSlice () Slice (mk_slice 0 0 0 0))
(declare-fun sidx (Int Int) Int)
(assert (forall ((o Int) (i Int)) (! (= (sidx o i) (+ o i)) :pattern ((sidx o i)))))
(define-fun nilIface () Iface (mk_iface 0 0))
(define-fun tdiv ((a Int) (b Int)) Int (ite (>= a 0) (ite (> b 0) (div a b) (- (div a (- b)))) (ite (> b 0) (- (div (- a) b)) (div (- a) (- b)))))
(define-fun tmod ((a Int) (b Int)) Int (- a (* b (tdiv a b))))
(define-fun imax ((a Int) (b Int)) Int (ite (>= a b) a b))
(define-fun imin ((a Int) (b Int)) Int (ite (<= a b) a b))
(define-fun wfSlice ((s Slice)) Bool (and (>= (s_reg s) 0) (>= (s_off s) 0) (>= (s_len s) 0) (<= (s_len s) (s_cap s)) (=> (= (s_reg s) 0) (= (s_cap s) 0))))
(assert (forall ((e Err)) (! (wraps e e) :pattern ((wraps e e)))))
(assert (forall ((t Err)) (! (=> (wraps nilErr t) (= t nilErr)) :pattern ((wraps nilErr t)))))
(assert (forall ((e Err)) (! (=> (wraps e nilErr) (= e nilErr)) :pattern ((wraps e nilErr)))))
(assert (forall ((x Int)) (! (= (unixMicro (timeOfMicro x)) x) :pattern ((timeOfMicro x)))))
(assert (forall ((a Time) (b Time)) (! (=> (timeAfter a b) (>= (unixMicro a) (unixMicro b))) :pattern ((timeAfter a b)))))
(assert (forall ((a Time) (b Time)) (! (=> (not (timeAfter a b)) (<= (unixMicro a) (unixMicro b))) :pattern ((timeAfter a b)))))
(assert (timeIsZero zeroTime))
`

// Sorts knows how Go types map to SMT sorts, declaring datatypes on demand.
type Sorts struct {
	sc        *Script
	structs   map[string]*structInfo // by sort name
	byType    map[types.Type]string
	anon      int
	typeTags  map[string]int // dynamic type tags for interface values
	tagTypes  []types.Type
	strConsts map[string]Term
}

type structInfo struct {
	Sort   string
	T      *types.Struct
	Named  *types.Named
	Fields []fieldInfo
}
type fieldInfo struct {
	Name string
	Sort string
	T    types.Type
	Sel  string
}

func newSorts(sc *Script) *Sorts {
	return &Sorts{sc: sc, structs: map[string]*structInfo{}, byType: map[types.Type]string{}, typeTags: map[string]int{}, strConsts: map[string]Term{}}
}

func isNamed(t types.Type, pkg, name string) bool {
	t = types.Unalias(t)
	nt, ok := t.(*types.Named)
	if !ok {
		return false
	}
	o := nt.Obj()
	return o.Name() == name && o.Pkg() != nil && o.Pkg().Path() == pkg
}

func (so *Sorts) sortOf(t types.Type) string {
	t = types.Unalias(t)
	if s, ok := so.byType[t]; ok {
		return s
	}
	s := so.sortOf0(t)
	so.byType[t] = s
	return s
}

func (so *Sorts) sortOf0(t types.Type) string {
	switch {
	case t == bseqType:
		return "BSeq"
	case isNamed(t, "time", "Time"):
		return "Time"
	case isNamed(t, "sync", "Mutex"), isNamed(t, "sync", "RWMutex"), isNamed(t, "sync/atomic", "Int64"),
		isNamed(t, "sync/atomic", "Int32"), isNamed(t, "sync/atomic", "Bool"):
		return "Int"
	case isErrorType(t):
		return "Err"
	}
	switch u := t.(type) {
	case *types.Named:
		if st, ok := u.Underlying().(*types.Struct); ok {
			name := "S_" + sanitize(shortPkg(pkgPathOf(u))) + "_" + u.Obj().Name()
			name = strings.ReplaceAll(name, ".", "_")
			name = strings.ReplaceAll(name, "/", "_")
			so.declStruct(name, st, u)
			return name
		}
		return so.sortOf(u.Underlying())
	case *types.Basic:
		switch {
		case u.Info()&types.IsInteger != 0:
			return "Int"
		case u.Info()&types.IsBoolean != 0:
			return "Bool"
		case u.Info()&types.IsString != 0:
			return "Str"
		case u.Info()&types.IsFloat != 0:
			return "Real"
		case u.Kind() == types.UnsafePointer:
			return "Int"
		case u.Kind() == types.UntypedNil:
			return "Int"
		}
		return "Int"
	case *types.Pointer, *types.Map, *types.Chan, *types.Signature:
		return "Int"
	case *types.Slice:
		return "Slice"
	case *types.Array:
		return "Int" // arrays live in regions; the value is the region id
	case *types.Interface:
		return "Iface"
	case *types.Struct:
		if u.NumFields() == 0 {
			return "Unit"
		}
		so.anon++
		name := fmt.Sprintf("S_anon_%d", so.anon)
		so.declStruct(name, u, nil)
		return name
	case *types.TypeParam:
		if ct := coreType(u); ct != nil {
			return so.sortOf(ct)
		}
		name := "TP_" + u.Obj().Name()
		so.sc.declare("s:"+name, fmt.Sprintf("(declare-sort %s 0)", name))
		return name
	case *types.Tuple:
		return "Unit"
	}
	return "Int"
}

func pkgPathOf(n *types.Named) string {
	if n.Obj().Pkg() == nil {
		return ""
	}
	return n.Obj().Pkg().Path()
}

func (so *Sorts) declStruct(name string, st *types.Struct, nt *types.Named) {
	if _, ok := so.structs[name]; ok {
		return
	}
	si := &structInfo{Sort: name, T: st, Named: nt}
	so.structs[name] = si // break cycles (pointers are Int so no real cycles)
	var fs []string
	for i := 0; i < st.NumFields(); i++ {
		f := st.Field(i)
		fsrt := so.sortOf(f.Type())
		sel := fmt.Sprintf("%s_%s", name, f.Name())
		if f.Name() == "_" {
			sel = fmt.Sprintf("%s__%d", name, i)
		}
		si.Fields = append(si.Fields, fieldInfo{Name: f.Name(), Sort: fsrt, T: f.Type(), Sel: sel})
		fs = append(fs, fmt.Sprintf("(%s %s)", sel, fsrt))
	}
	if len(fs) == 0 {
		so.sc.declare("s:"+name, fmt.Sprintf("(declare-datatypes ((%s 0)) (((mk_%s))))", name, name))
		return
	}
	so.sc.declare("s:"+name, fmt.Sprintf("(declare-datatypes ((%s 0)) (((mk_%s %s))))", name, name, strings.Join(fs, " ")))
}

func (so *Sorts) structOf(t types.Type) *structInfo {
	s := so.sortOf(t)
	return so.structs[s]
}

// ghostFields lets contracts add ghost fields to struct types; they are kept
// in separate heap arrays so they never change the datatype of the struct.

func (so *Sorts) zero(t types.Type) Term {
	t = types.Unalias(t)
	s := so.sortOf(t)
	switch s {
	case "Int":
		return "0"
	case "Bool":
		return "false"
	case "Str":
		return "emptyStr"
	case "Err":
		return "nilErr"
	case "Time":
		return "zeroTime"
	case "Slice":
		return "nilSlice"
	case "Iface":
		return "nilIface"
	case "Unit":
		return "unit"
	case "Real":
		return "0.0"
	}
	if si, ok := so.structs[s]; ok {
		if len(si.Fields) == 0 {
			return "mk_" + s
		}
		var args []string
		for _, f := range si.Fields {
			args = append(args, so.zero(f.T))
		}
		return "(mk_" + s + " " + strings.Join(args, " ") + ")"
	}
	if strings.HasPrefix(s, "TP_") {
		return so.sc.declConst("zero_"+s, s)
	}
	return "0"
}

// rangeFact returns the numeric range constraint of a Go integer type, or "".
func rangeFact(t types.Type, x Term) Term {
	t = types.Unalias(t)
	b, ok := t.Underlying().(*types.Basic)
	if !ok || b.Info()&types.IsInteger == 0 {
		return ""
	}
	lo, hi := intRange(b)
	return "(and (<= " + lo + " " + x + ") (<= " + x + " " + hi + "))"
}

func intRange(b *types.Basic) (lo, hi Term) {
	switch b.Kind() {
	case types.Int8:
		return "(- 128)", "127"
	case types.Int16:
		return "(- 32768)", "32767"
	case types.Int32:
		return "(- 2147483648)", "2147483647"
	case types.Int, types.Int64, types.UntypedInt:
		return "(- 9223372036854775808)", "9223372036854775807"
	case types.Uint8:
		return "0", "255"
	case types.Uint16:
		return "0", "65535"
	case types.Uint32:
		return "0", "4294967295"
	case types.Uint, types.Uint64, types.Uintptr:
		return "0", "18446744073709551615"
	}
	return "(- 9223372036854775808)", "9223372036854775807"
}

func intBits(b *types.Basic) (bits int, signed bool) {
	switch b.Kind() {
	case types.Int8:
		return 8, true
	case types.Int16:
		return 16, true
	case types.Int32:
		return 32, true
	case types.Int, types.Int64, types.UntypedInt:
		return 64, true
	case types.Uint8:
		return 8, false
	case types.Uint16:
		return 16, false
	case types.Uint32:
		return 32, false
	case types.Uint, types.Uint64, types.Uintptr:
		return 64, false
	}
	return 64, true
}

func pow2(n int) string {
	// up to 2^64
	v := new(bigInt)
	v.setPow2(n)
	return v.String()
}

// tiny big-int for powers of two (avoid importing math/big everywhere)
type bigInt struct{ digits []int }

func (b *bigInt) setPow2(n int) {
	b.digits = []int{1}
	for i := 0; i < n; i++ {
		carry := 0
		for j := range b.digits {
			v := b.digits[j]*2 + carry
			b.digits[j] = v % 10
			carry = v / 10
		}
		if carry > 0 {
			b.digits = append(b.digits, carry)
		}
	}
}
func (b *bigInt) String() string {
	var sb strings.Builder
	for i := len(b.digits) - 1; i >= 0; i-- {
		sb.WriteByte(byte('0' + b.digits[i]))
	}
	return sb.String()
}

// typeTag gives the dynamic type tag used in interface values.
func (so *Sorts) typeTag(t types.Type) int {
	k := types.TypeString(types.Unalias(t), nil)
	if n, ok := so.typeTags[k]; ok {
		return n
	}
	n := len(so.typeTags) + 1
	so.typeTags[k] = n
	so.tagTypes = append(so.tagTypes, t)
	return n
}

func (so *Sorts) strConst(v string) Term {
	if v == "" {
		return "emptyStr"
	}
	if t, ok := so.strConsts[v]; ok {
		return t
	}
	name := fmt.Sprintf("str!%d", len(so.strConsts)+1)
	so.sc.declConst(name, "Str")
	so.strConsts[v] = name
	return name
}

func (so *Sorts) strDistinctAxiom() Term {
	if len(so.strConsts) == 0 {
		return ""
	}
	var names []string
	for _, n := range so.strConsts {
		names = append(names, n)
	}
	sort.Strings(names)
	names = append(names, "emptyStr")
	return "(distinct " + strings.Join(names, " ") + ")"
}

// under gives the underlying type, mapping type parameters with a core type
// (e.g. S ~[]O) to that core type.
func under(t types.Type) types.Type {
	t = types.Unalias(t)
	if tp, ok := t.(*types.TypeParam); ok {
		if ct := coreType(tp); ct != nil {
			return ct.Underlying()
		}
		return tp.Underlying()
	}
	return t.Underlying()
}

func coreType(tp *types.TypeParam) types.Type {
	iface, ok := tp.Constraint().Underlying().(*types.Interface)
	if !ok {
		return nil
	}
	if iface.NumEmbeddeds() == 1 {
		if u, ok := iface.EmbeddedType(0).(*types.Union); ok && u.Len() == 1 {
			return u.Term(0).Type()
		}
	}
	return nil
}
