package main

import (
	"syscall"
	"bytes"
	"context"
	"fmt"
	"os/exec"
	"strings"
	"sync"
	"time"
)

// wall-clock backstop = CPU budget * wallFactor. The budget that decides a verdict is CPU time; the wall clock
// only stops a solver that is starved or hung, so the factor is generous (a machine loaded 10x must not
// change a verdict).
const wallFactor = 40

type solverSpec struct {
	name string
	cmd  func(timeoutSec int) []string
}

var solvers = []solverSpec{
	{"z3-5.1.0", func(t int) []string { return []string{"z3-new", "-in", "-smt2", fmt.Sprintf("-T:%d", t)} }},
	{"cvc5-1.0.3", func(t int) []string {
		return []string{"cvc5", "--lang", "smt2", fmt.Sprintf("--tlimit=%d", t*1000), "--produce-models", "-"}
	}},
	{"z3-4.8.12", func(t int) []string { return []string{"z3", "-in", "-smt2", fmt.Sprintf("-T:%d", t)} }},
}

func (sc *Script) text(o *Obligation, wantModel bool) string {
	var b strings.Builder
	b.WriteString("(set-option :produce-models true)\n(set-logic ALL)\n")
	b.WriteString(preludeSMT)
	for _, d := range sc.decls {
		b.WriteString(d)
		b.WriteByte('\n')
	}
	for _, a := range sc.asserts[:o.Cut] {
		b.WriteString("(assert ")
		b.WriteString(a)
		b.WriteString(")\n")
	}
	for _, a := range o.Extras {
		b.WriteString("(assert " + a + ")\n")
	}
	if o.Cover {
		b.WriteString("(assert " + o.Goal + ")\n")
	} else {
		b.WriteString("(assert (not " + o.Goal + "))\n")
	}
	b.WriteString("(check-sat)\n")
	if wantModel {
		b.WriteString("(get-model)\n")
	}
	return b.String()
}

func runSolver(ctx context.Context, s solverSpec, script string, timeoutSec int) (verdict string, out string, ms int64) {
	// The budget is CPU time (ulimit -t), so a loaded machine makes a check slower, never different;
	// the solver's own wall-clock limit and the context are a generous backstop.
	wall := timeoutSec * wallFactor
	args := s.cmd(wall)
	cctx, cancel := context.WithTimeout(ctx, time.Duration(wall+2)*time.Second)
	defer cancel()
	sh := append([]string{"-c", fmt.Sprintf("ulimit -t %d; exec \"$@\"", timeoutSec), "sh"}, args...)
	cmd := exec.CommandContext(cctx, "/bin/sh", sh...)
	cmd.SysProcAttr = &syscall.SysProcAttr{Pdeathsig: syscall.SIGKILL}
	cmd.Stdin = strings.NewReader(script)
	var ob bytes.Buffer
	cmd.Stdout = &ob
	cmd.Stderr = &ob
	t0 := time.Now()
	runErr := cmd.Run()
	ms = time.Since(t0).Milliseconds()
	out = ob.String()
	first := ""
	for _, ln := range strings.Split(out, "\n") {
		ln = strings.TrimSpace(ln)
		if ln == "" || strings.HasPrefix(ln, "WARNING") || strings.HasPrefix(ln, ";") {
			continue
		}
		first = ln
		break
	}
	switch first {
	case "unsat", "sat", "unknown":
		verdict = first
	case "timeout":
		verdict = "timeout"
	default:
		killedByCPU := false
		if ee, ok := runErr.(*exec.ExitError); ok && !ee.Exited() {
			killedByCPU = true // SIGXCPU / SIGKILL from the CPU limit
		}
		if first == "" && runErr != nil {
			killedByCPU = true
		}
		if killedByCPU || cctx.Err() != nil || strings.Contains(out, "timeout") || strings.Contains(out, "interrupted") {
			verdict = "timeout"
		} else {
			verdict = "error"
		}
	}
	return
}

// discharge decides one obligation by racing the solvers.
func discharge(sc *Script, o *Obligation, tier string) {
	if o.Kind == "bind" {
		// a clause that no longer connects to the code: failed by construction, no solver involved
		o.Verdict, o.Solver, o.Output = "unbound", "none", o.Text
		return
	}
	script := sc.text(o, false)
	want := "unsat"
	if o.Cover {
		want = "sat"
	}
	quickT, slowT := 4, 30
	if tier == "thorough" {
		quickT, slowT = 10, 60
	}
	ctx, cancel := context.WithCancel(context.Background())
	defer cancel()
	if o.Cover {
		// vacuity guard: only `unsat` is a failure; quantified sat queries often end in unknown
		t := 2
		if tier == "thorough" {
			t = 10
		}
		v, out, ms := runSolver(ctx, solvers[0], script, t)
		o.Verdict, o.Solver, o.Output, o.Millis = v, solvers[0].name, out, ms
		return
	}
	// first attempt: z3-new alone with a short timeout
	v, out, ms := runSolver(ctx, solvers[0], script, quickT)
	o.Millis = ms
	if v == "unsat" || v == "sat" {
		o.Verdict, o.Solver, o.Output = v, solvers[0].name, out
		if tier == "thorough" && v == want {
			// cross-check on the other solvers; disagreement is a failure
			for _, s := range solvers[1:] {
				v2, out2, ms2 := runSolver(ctx, s, script, quickT)
				o.Millis += ms2
				if (v2 == "sat" || v2 == "unsat") && v2 != v {
					o.Verdict = "disagree"
					o.Output = fmt.Sprintf("%s says %s, %s says %s\n%s", solvers[0].name, v, s.name, v2, out2)
					return
				}
			}
		}
		if v != want && !o.Cover {
			o.Model = getModel(sc, o, solvers[0])
		}
		return
	}
	if o.KnownFinding {
		// listed known finding: expected not to discharge, do not spend the long race on it
		o.Verdict, o.Solver, o.Output = v, solvers[0].name, out
		return
	}
	// race all three with the long timeout
	type res struct {
		v, out string
		ms     int64
		s      solverSpec
	}
	ch := make(chan res, len(solvers))
	var wg sync.WaitGroup
	for _, s := range solvers {
		wg.Add(1)
		go func(s solverSpec) {
			defer wg.Done()
			v, out, ms := runSolver(ctx, s, script, slowT)
			ch <- res{v, out, ms, s}
		}(s)
	}
	go func() { wg.Wait(); close(ch) }()
	var last res
	for r := range ch {
		last = r
		if r.v == "unsat" || r.v == "sat" {
			o.Verdict, o.Solver, o.Output = r.v, r.s.name, r.out
			o.Millis += r.ms
			cancel()
			if r.v != want && !o.Cover {
				o.Model = getModel(sc, o, r.s)
			}
			return
		}
	}
	o.Verdict, o.Solver, o.Output = last.v, "all", last.out
	if o.Verdict == "" {
		o.Verdict = "unknown"
	}
	o.Millis += last.ms
}

func getModel(sc *Script, o *Obligation, s solverSpec) string {
	script := sc.text(o, true)
	_, out, _ := runSolver(context.Background(), s, script, 10)
	if len(out) > 200000 {
		out = out[:200000]
	}
	return out
}

func dischargeAll(sc *Script, tier string, workers int) {
	var wg sync.WaitGroup
	sem := make(chan struct{}, workers)
	for _, o := range sc.obls {
		wg.Add(1)
		sem <- struct{}{}
		go func(o *Obligation) {
			defer wg.Done()
			defer func() { <-sem }()
			discharge(sc, o, tier)
		}(o)
	}
	wg.Wait()
}

func (o *Obligation) ok() bool {
	if o.Cover {
		return o.Verdict == "sat" || o.Verdict == "unknown" || o.Verdict == "timeout"
	}
	return o.Verdict == "unsat"
}
