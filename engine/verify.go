package main

import (
	"fmt"
	"go/types"
	"sort"
	"strings"

	"golang.org/x/tools/go/ssa"
)

type FuncResult struct {
	Key     string
	Script  *Script
	Err     string // engine could not handle the function
	Notes   []string
	Callees []string
	Trusted []string
	Flags   []string
}

func (e *Engine) newExec(key string, fn *ssa.Function, fc *FuncContract) *Exec {
	sc := newScript()
	x := &Exec{eng: e, sc: sc, so: newSorts(sc), fnKey: key, top: fn, fc: fc, heapSort: map[string]string{}, cellT: map[int]types.Type{},
		callSeq: map[string]int{}, calleesUsed: map[string]bool{}, trustedUsed: map[string]bool{}, flags: map[string]bool{},
		cellSort: map[int]string{}, cellZeroT: map[int]Term{}, ranges: map[*ssa.Range]*rangeState{}, globalVals: map[string]Term{}, specDone: map[string]bool{},
		keyType: map[string]types.Type{}}
	if fc != nil {
		for f := range fc.Flags {
			x.flags[f] = true
		}
	}
	x.allocBase = sc.declConst("allocBase0", "Int")
	sc.assert("(>= allocBase0 1)")
	x.allocBase0 = x.allocBase
	x.old = newState()
	return x
}

// symParam creates the symbolic entry value of a parameter.
func (x *Exec) symParam(name string, t types.Type, nonNil bool) Val {
	c := x.sc.declConst("p_"+sanitize(name), x.so.sortOf(t))
	v := Val{T: t, S: c}
	x.assumeRange(v)
	if _, ok := types.Unalias(t).(*types.TypeParam); ok {
		return v // a value of a type parameter is opaque
	}
	switch u := under(t).(type) {
	case *types.Pointer, *types.Map, *types.Chan:
		_ = u
		if nonNil {
			x.sc.assert(fmt.Sprintf("(and (> %s 0) (<= %s allocBase0))", c, c))
		} else {
			x.sc.assert(fmt.Sprintf("(and (>= %s 0) (<= %s allocBase0))", c, c))
		}
	case *types.Slice:
		x.sc.assert(fmt.Sprintf("(<= (s_reg %s) allocBase0)", c))
	case *types.Interface:
		if !isErrorType(t) {
			x.sc.assert(fmt.Sprintf("(and (>= (i_tag %s) 0) (<= (i_val %s) allocBase0))", c, c))
		}
	}
	return v
}

// verifyUnit verifies one unit: own contract, refinement, or one case of a split contract.
func (e *Engine) verifyUnit(u unit) *FuncResult {
	if u.caseIdx > 0 {
		own := e.cs.Funcs[u.key]
		if own == nil {
			return e.verifyFunc(u.key, nil, "")
		}
		c := *own
		c.Requires = append(append([]Clause{}, own.Requires...), own.Cases[u.caseIdx-1])
		c.Cases = nil
		saved := e.cs.Funcs[u.key]
		e.cs.Funcs[u.key] = &c
		res := e.verifyFunc(u.key, nil, u.prefix)
		e.cs.Funcs[u.key] = saved
		return res
	}
	return e.verifyFunc(u.key, u.against, u.prefix)
}

// verifyFunc generates all obligations of one function against a contract.
// If against != nil the body is checked against that (interface/field)
// contract instead of its own (refinement); loops always use the own contract.
func (e *Engine) verifyFunc(key string, against *FuncContract, prefix string) (res *FuncResult) {
	res = &FuncResult{Key: key}
	fkey := key
	if i := strings.Index(key, "#"); i >= 0 {
		fkey = key[:i] // alternative contract of the same body
	}
	fn := e.prog.Funcs[fkey]
	own := e.cs.Funcs[key]
	if own == nil && fn != nil && fn.Name() == "init" {
		// the init unit proves the package's `axiom` declarations as postconditions of package initialisation
		own = &FuncContract{Kind: "func", Key: key, Pkg: shortPkg(fn.Pkg.Pkg.Path()), Loops: map[int]*LoopContract{}, Flags: map[string]bool{"noframe": true}}
		for _, ax := range e.cs.Axioms {
			if longPkg(ax.Pkg) == fn.Pkg.Pkg.Path() {
				own.Ensures = append(own.Ensures, Clause{Label: ax.Name, Expr: ax.Expr, Text: ax.Text})
			}
		}
	}
	if fn == nil {
		res.Err = "contract-binding: function " + key + " not found in /repo"
		return
	}
	if own == nil {
		res.Err = "no contract for " + key
		return
	}
	fc := own
	name := key
	if against == nil && prefix != "" {
		name = key + "/" + prefix
	}
	if against != nil {
		// merged view: pre/post of the abstract contract, loops/flags of the own one
		m := *against
		m.Loops = own.Loops
		m.Flags = own.Flags
		m.Anchors = own.Anchors
		fc = &m
		name = key + "/" + prefix
	}
	x := e.newExec(name, fn, fc)
	res.Script = x.sc
	if x.flags["locks"] {
		x.heapBase(heldKey, heldSort)
	}
	for f := range x.flags {
		if strings.HasPrefix(f, "only_") {
			x.only = append(x.only, strings.TrimPrefix(f, "only_"))
		}
	}
	sort.Strings(x.only)
	defer func() {
		if r := recover(); r != nil {
			if u, ok := r.(unsupported); ok {
				res.Err = "engine: " + u.msg + " at " + x.posStr(x.curPos)
				return
			}
			panic(r)
		}
	}()
	// parameters
	var args []Val
	env := &Env{vars: map[string]Val{}, cur: x.old, old: x.old, pkg: fn.Pkg.Pkg, x: x, freshLo: "allocBase0"}
	for i, p := range fn.Params {
		nonNil := i == 0 && fn.Signature.Recv() != nil
		v := x.symParam(p.Name(), p.Type(), nonNil)
		args = append(args, v)
		env.vars[p.Name()] = v
	}
	if against != nil {
		// bind the abstract contract's names: self = boxed receiver, then parameters by position
		sig, _ := e.signatureOf(against)
		recv := args[0]
		if against.Kind == "iface" {
			env.vars["self"] = Val{T: e.ownerType(against), S: fmt.Sprintf("(mk_iface %d %s)", x.so.typeTag(recv.T), recv.S)}
		} else {
			env.vars["self"] = recv
		}
		if sig != nil {
			for i := 0; i < sig.Params().Len() && i+1 < len(args); i++ {
				n := sig.Params().At(i).Name()
				if n == "" || n == "_" {
					n = fmt.Sprintf("p%d", i)
				}
				env.vars[n] = args[i+1]
			}
		}
		for i, n := range against.Params {
			if i < len(args) {
				env.vars[n] = args[i]
			}
		}
	}
	// facts about package-level variables established by init (proved in the unit <pkg>.init)
	if fn.Name() != "init" {
		for _, ax := range e.cs.Axioms {
			if longPkg(ax.Pkg) == fn.Pkg.Pkg.Path() {
				aenv := &Env{vars: map[string]Val{}, cur: x.old, old: x.old, pkg: fn.Pkg.Pkg, x: x, freshLo: "allocBase0"}
				x.sc.assert(x.trBool(ax.Expr, aenv))
			}
		}
	}
	for _, rq := range fc.Requires {
		x.sc.assert(x.trBool(rq.Expr, env))
	}
	x.cover("pre", "true", fn.Pos(), "precondition satisfiable")
	if fc.Flags["assumed"] {
		// contract is assumed, body not verified
		res.Flags = append(res.Flags, "assumed")
		x.sc.obls = nil
		return
	}
	x.entryEnv = env
	// every anchor must bind to a program point: a clause that binds nowhere would be vacuously "proved"
	nret := 0
	for _, b := range fn.Blocks {
		if b == fn.Recover {
			continue
		}
		for _, in := range b.Instrs {
			if _, ok := in.(*ssa.Return); ok {
				nret++
			}
		}
	}
	for i := range fc.Anchors {
		ac := &fc.Anchors[i]
		switch ac.At {
		case "return":
			if ac.K == -1 {
				ac.K = nret
			}
			if ac.K < 1 || ac.K > nret {
				x.bindFail(labelOr(ac.Clause.Label, 0), fmt.Sprintf("there is no return %d (the function has %d): %s", ac.K, nret, strings.Join(strings.Fields(ac.Clause.Text), " ")), fn.Pos())
			}
		case "store":
			if x.storeTarget(fn, ac) == nil {
				x.bindFail(labelOr(ac.Clause.Label, 0), fmt.Sprintf("there is no assignment #%d to %s: %s", ac.K, ac.Callee, strings.Join(strings.Fields(ac.Clause.Text), " ")), fn.Pos())
			}
		case "call":
			if x.anchorTarget(fn, ac) == nil {
				x.bindFail(labelOr(ac.Clause.Label, 0), fmt.Sprintf("there is no call #%d of %q: %s", ac.K, ac.Callee, strings.Join(strings.Fields(ac.Clause.Text), " ")), fn.Pos())
			}
		}
	}
	x.against = against != nil
	_, st, reach := x.run(fn, args, nil, x.old.clone(), "true", true, fn.Pos())
	x.curPos = fn.Pos()
	if !fc.Flags["noframe"] {
		x.frameCheck(fc, env, st, reach)
	}
	for _, en := range fc.Ensures {
		if strings.HasPrefix(en.Label, "ghost") {
			x.sc.note("bookkeeping clause (ghost counter, a definition): NOT checked, assumed by callers: ensures %s", strings.Join(strings.Fields(en.Text), " "))
		}
	}
	if len(x.only) > 0 {
		// thin unit: clauses of this function outside its clause families are not proved here, yet callers assume them
		for i, en := range fc.Ensures {
			if !x.keepThin("post", labelOr(en.Label, i)) {
				x.sc.note("thin unit: clause NOT checked here, assumed by callers: ensures %s", strings.Join(strings.Fields(en.Text), " "))
			}
		}
		x.sc.note("thin unit (clause families %s): preconditions of callees outside these families are not checked at the call sites; callees' postconditions are assumed there", strings.Join(x.only, ","))
	}
	res.Notes = x.sc.notes
	for c := range x.calleesUsed {
		res.Callees = append(res.Callees, c)
	}
	sort.Strings(res.Callees)
	for c := range x.trustedUsed {
		res.Trusted = append(res.Trusted, c)
	}
	sort.Strings(res.Trusted)
	for f := range x.flags {
		res.Flags = append(res.Flags, f)
	}
	sort.Strings(res.Flags)
	if len(x.fnIDs) > 1 {
		var ids []string
		for id := range x.fnIDs {
			ids = append(ids, id)
		}
		sort.Strings(ids)
		x.sc.decls = append(x.sc.decls, "(assert (distinct "+strings.Join(ids, " ")+"))")
	}
	if a := x.so.strDistinctAxiom(); a != "" {
		// string literals are pairwise distinct: prepend as declaration-time assertion
		x.sc.decls = append(x.sc.decls, "(assert "+a+")")
	}
	return
}

// frameCheck: every pre-existing location outside the assigns clause is unchanged.
func (x *Exec) frameCheck(fc *FuncContract, env *Env, st *State, reach Term) {
	whole := map[string]bool{}
	objs := map[string][]Term{}
	regions := map[string][]Term{}
	all := false
	for _, a := range fc.Assigns {
		switch t := a.(type) {
		case *CIdent:
			if t.Name == "all" {
				all = true
			} else if gv, ok := x.eng.cs.GVars[t.Name]; ok {
				k, _ := x.ghostVarKey(gv)
				whole[k] = true
			}
		case *CSel:
			if q, ok := t.X.(*CSel); ok {
				if pid, ok := q.X.(*CIdent); ok {
					if pk := x.eng.importedPkg(env.pkg, pid.Name); pk != nil {
						if si, fi := x.eng.lookupTypeField(x, pk, q.Name, t.Name); si != nil {
							k, _ := x.fieldKeyOrGhost(si, fi, t.Name)
							whole[k] = true
							continue
						}
					}
				}
			}
			if id, ok := t.X.(*CIdent); ok {
				if _, isVar := env.vars[id.Name]; !isVar {
					if si, fi := x.eng.lookupTypeField(x, env.pkg, id.Name, t.Name); si != nil {
						k, _ := x.fieldKeyOrGhost(si, fi, t.Name)
						whole[k] = true
						continue
					}
				}
			}
			base := x.tr(t.X, env)
			if loc := x.selLoc(base, t.Name, env); loc != nil && loc.Kind == lField {
				objs[loc.Key] = append(objs[loc.Key], loc.Ref)
			}
		case *CUn:
			p := x.tr(t.X, env)
			if p.L == nil {
				pt := under(p.T).(*types.Pointer)
				if si := x.so.structOf(pt.Elem()); si != nil {
					for i := range si.Fields {
						k, _ := x.fieldKey(si, i)
						objs[k] = append(objs[k], p.S)
					}
				} else {
					k, _ := x.derefKey(pt.Elem())
					objs[k] = append(objs[k], p.S)
				}
			}
		case *CCall:
			if id, ok := t.Fun.(*CIdent); ok && id.Name == "elems" {
				s := x.tr(t.Args[0], env)
				switch u := under(s.T).(type) {
				case *types.Slice:
					k, _ := x.elemKey(u.Elem())
					regions[k] = append(regions[k], app("s_reg", s.S))
				case *types.Map:
					dk, _, vk, _ := x.mapKeys(u)
					objs[dk] = append(objs[dk], s.S)
					objs[vk] = append(objs[vk], s.S)
				}
			}
		}
	}
	if all {
		return
	}
	// bookkeeping counters (`ghost counter`) are updated by contracts only and are not part of any frame
	for _, gv := range x.eng.cs.GVars {
		if gv.Counter {
			k, _ := x.ghostVarKey(gv)
			whole[k] = true
		}
	}
	var keys []string
	for k := range st.heap {
		keys = append(keys, k)
	}
	sort.Strings(keys)
	for _, k := range keys {
		if whole[k] || strings.HasPrefix(k, "G:") {
			continue
		}
		srt := x.heapSort[k]
		cur := st.heap[k]
		base := x.heapGet(x.old, k, srt)
		if cur == base {
			continue
		}
		var goal Term
		switch {
		case strings.HasPrefix(k, "X:"):
			goal = eq(cur, base)
		case strings.HasPrefix(k, "E:"):
			var ne []Term
			for _, r := range regions[k] {
				ne = append(ne, not(eq("r", r)))
			}
			goal = fmt.Sprintf("(forall ((r Int)) (=> %s (= (select %s r) (select %s r))))", and(append(ne, "(<= r allocBase0)", "(> r 0)")...), cur, base)
		default:
			var ne []Term
			for _, r := range objs[k] {
				ne = append(ne, not(eq("r", r)))
			}
			goal = fmt.Sprintf("(forall ((r Int)) (=> %s (= (select %s r) (select %s r))))", and(append(ne, "(<= r allocBase0)", "(> r 0)")...), cur, base)
		}
		x.oblige("frame", strings.TrimPrefix(strings.TrimPrefix(k, "F:S_"), "F:"), implies(reach, goal), x.top.Pos(), "only locations in the assigns clause change: "+k)
	}
}

func (fc *FuncContract) limit(what string) (Term, bool) {
	if fc == nil {
		return "", false
	}
	return "", false
}
