package probe

import (
	"os"
	"path/filepath"
	"testing"
	"time"

	"github.com/klev-dev/klevdb"
)

// D1: a log tail shorter than a record header reads as clean end of file.
func TestD1(t *testing.T) {
	dir := t.TempDir()
	l, err := klevdb.Open(dir, klevdb.Options{CreateDirs: true})
	if err != nil { t.Fatal(err) }
	if _, err := l.Publish([]klevdb.Message{{Time: time.Unix(100, 0), Key: []byte("k"), Value: []byte("v")}}); err != nil { t.Fatal(err) }
	if err := l.Close(); err != nil { t.Fatal(err) }
	logPath := filepath.Join(dir, "00000000000000000000.log")
	data, _ := os.ReadFile(logPath)
	valid := len(data)
	// a torn append: 5 bytes of the next record's header made it to disk
	if err := os.WriteFile(logPath, append(data, 1, 2, 3, 4, 5), 0600); err != nil { t.Fatal(err) }
	if err := klevdb.Check(dir, klevdb.Options{}); err == nil { t.Errorf("Check accepts a log with a torn record header at the end") }
	if err := klevdb.Recover(dir, klevdb.Options{}); err != nil { t.Fatal(err) }
	st, _ := os.Stat(logPath)
	if int(st.Size()) != valid { t.Errorf("Recover left %d bytes, the valid prefix has %d", st.Size(), valid) }
}
