package probe

import (
	"os"
	"path/filepath"
	"testing"

	"github.com/klev-dev/klevdb"
)

// D10: index files are derived data (C11): with the index file of a sealed segment removed, a reopened
// log must behave as before. Delete in that segment (before any query has rebuilt the index) fails.
func TestD10(t *testing.T) {
	dir := t.TempDir()
	l, err := klevdb.Open(dir, klevdb.Options{CreateDirs: true, Rollover: 100})
	if err != nil {
		t.Fatal(err)
	}
	for i := 0; i < 6; i++ {
		if _, err := l.Publish([]klevdb.Message{{Key: []byte("k"), Value: make([]byte, 60)}}); err != nil {
			t.Fatal(err)
		}
	}
	if err := l.Close(); err != nil {
		t.Fatal(err)
	}
	idx, _ := filepath.Glob(filepath.Join(dir, "*.index"))
	if len(idx) < 3 {
		t.Fatalf("want several segments, have %d", len(idx))
	}
	if err := os.Remove(idx[0]); err != nil { // the oldest, sealed segment
		t.Fatal(err)
	}
	r, err := klevdb.Open(dir, klevdb.Options{Rollover: 100})
	if err != nil {
		t.Fatal(err)
	}
	defer r.Close()
	deleted, _, err := r.Delete(map[int64]struct{}{0: {}})
	if err != nil {
		t.Fatalf("Delete(0) in a segment whose index file was removed: %v", err)
	}
	if len(deleted) != 1 {
		t.Fatalf("Delete(0) deleted %d messages", len(deleted))
	}
	if _, err := r.Get(0); err == nil {
		t.Fatalf("offset 0 still readable after its delete")
	}
	left, _ := filepath.Glob(filepath.Join(dir, "*.rewrite.*"))
	if len(left) != 0 {
		t.Fatalf("temp files left behind: %v", left)
	}
}
