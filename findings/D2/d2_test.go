package probe

import (
	"os"
	"path/filepath"
	"testing"

	"github.com/klev-dev/klevdb"
)

// D2: the index says three records, the log file is cut inside the indexed range
// (the last record is gone completely): Consume panics with index out of range [-1].
func TestD2(t *testing.T) {
	dir := t.TempDir()
	l, err := klevdb.Open(dir, klevdb.Options{CreateDirs: true})
	if err != nil {
		t.Fatal(err)
	}
	msgs := []klevdb.Message{{Key: []byte("a"), Value: []byte("1")}, {Key: []byte("b"), Value: []byte("2")}, {Key: []byte("c"), Value: []byte("3")}}
	if _, err := l.Publish(msgs); err != nil {
		t.Fatal(err)
	}
	sz := l.Size(msgs[2])
	if err := l.Close(); err != nil {
		t.Fatal(err)
	}
	logs, _ := filepath.Glob(filepath.Join(dir, "*.log"))
	st, _ := os.Stat(logs[0])
	// remove exactly the last record: the file now ends where the index says record 2 starts
	idxItem := int64(16)
	if err := os.Truncate(logs[0], st.Size()-(sz-idxItem)); err != nil {
		t.Fatal(err)
	}
	r, err := klevdb.Open(dir, klevdb.Options{Readonly: true})
	if err != nil {
		t.Fatal(err)
	}
	defer r.Close()
	defer func() {
		if p := recover(); p != nil {
			t.Fatalf("Consume(2) panicked on a truncated segment: %v", p)
		}
	}()
	next, got, err := r.Consume(2, 10)
	if err == nil {
		t.Fatalf("Consume(2) on a segment whose indexed record is missing returned next=%d, %d messages and no error", next, len(got))
	}
}
