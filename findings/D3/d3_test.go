package probe

import (
	"testing"
	"time"

	"github.com/klev-dev/klevdb"
)

// D3: Get(OffsetNewest) on a non-empty log whose head segment is empty.
func TestD3(t *testing.T) {
	dir := t.TempDir()
	l, err := klevdb.Open(dir, klevdb.Options{CreateDirs: true, Rollover: 100})
	if err != nil { t.Fatal(err) }
	defer l.Close()
	for i := 0; i < 4; i++ {
		if _, err := l.Publish([]klevdb.Message{{Time: time.Unix(int64(100+i), 0), Key: []byte("k"), Value: make([]byte, 80)}}); err != nil { t.Fatal(err) }
	}
	// delete the (only) message of the head segment: the head becomes empty, older segments are not
	if _, _, err := l.Delete(map[int64]struct{}{3: {}}); err != nil { t.Fatal(err) }
	st, _ := l.Stat()
	t.Logf("stat %+v", st)
	msg, err := l.Get(klevdb.OffsetNewest)
	if err != nil { t.Fatalf("Get(OffsetNewest) on non-empty log: %v", err) }
	if msg.Offset != 2 { t.Fatalf("want offset 2 got %d", msg.Offset) }
}
