package probe

import (
	"errors"
	"testing"
	"time"

	"github.com/klev-dev/klevdb"
)

func openTime(t *testing.T, rollover int64) klevdb.Log {
	l, err := klevdb.Open(t.TempDir(), klevdb.Options{CreateDirs: true, Rollover: rollover, TimeIndex: true})
	if err != nil { t.Fatal(err) }
	return l
}

// D5: GetByTime when the head segment is empty but older segments are not.
func TestD5(t *testing.T) {
	l := openTime(t, 100)
	defer l.Close()
	for i := 0; i < 4; i++ {
		if _, err := l.Publish([]klevdb.Message{{Time: time.Unix(int64(100+i), 0), Key: []byte("k"), Value: make([]byte, 80)}}); err != nil { t.Fatal(err) }
	}
	if _, _, err := l.Delete(map[int64]struct{}{3: {}}); err != nil { t.Fatal(err) }
	msg, err := l.GetByTime(time.Unix(101, 0))
	if err != nil { t.Fatalf("GetByTime(101) with empty head: %v", err) }
	if msg.Offset != 1 { t.Fatalf("want offset 1 got %d", msg.Offset) }
	// after every live message: not found
	if _, err := l.GetByTime(time.Unix(500, 0)); !errors.Is(err, klevdb.ErrNotFound) { t.Fatalf("GetByTime(500) with empty head: want ErrNotFound, got %v", err) }
	// before all
	msg, err = l.GetByTime(time.Unix(1, 0))
	if err != nil || msg.Offset != 0 { t.Fatalf("GetByTime(1): %v %v", msg.Offset, err) }
}

// D4: equal timestamps on both sides of a segment boundary.
func TestD4(t *testing.T) {
	l := openTime(t, 100)
	defer l.Close()
	ts := time.Unix(100, 0)
	for i := 0; i < 6; i++ {
		if _, err := l.Publish([]klevdb.Message{{Time: ts, Key: []byte("k"), Value: make([]byte, 80)}}); err != nil { t.Fatal(err) }
	}
	msg, err := l.GetByTime(ts)
	if err != nil { t.Fatal(err) }
	if msg.Offset != 0 { t.Fatalf("first message at or after ts has offset 0, got %d", msg.Offset) }
}
