package probe

import (
	"testing"
	"time"

	"github.com/klev-dev/klevdb"
)

// D6: Rollover in [1,7] with the V2 format (8-byte file header): an EMPTY head is "rolled over"
// onto a segment with the same base offset.
func TestD6(t *testing.T) {
	l, err := klevdb.Open(t.TempDir(), klevdb.Options{CreateDirs: true, Rollover: 5})
	if err != nil { t.Fatal(err) }
	defer l.Close()
	for i := 0; i < 2; i++ {
		if _, err := l.Publish([]klevdb.Message{{Time: time.Unix(int64(100+i), 0), Key: []byte("k"), Value: []byte("v")}}); err != nil { t.Fatal(err) }
	}
	st, _ := l.Stat()
	if st.Messages != 2 { t.Errorf("Stat reports %d messages for 2 published (%+v)", st.Messages, st) }
	if _, msgs, err := l.Consume(klevdb.OffsetOldest, 10); err != nil || len(msgs) == 0 || msgs[0].Offset != 0 {
		t.Errorf("Consume(OffsetOldest): %v %v", msgs, err)
	}
}
