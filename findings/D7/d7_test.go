package probe

import (
	"os"
	"path/filepath"
	"testing"
	"time"

	"github.com/klev-dev/klevdb"
)

// D7: Recover appends to a stale *.log.recover left behind by an interrupted earlier recovery.
func TestD7(t *testing.T) {
	dir := t.TempDir()
	l, err := klevdb.Open(dir, klevdb.Options{CreateDirs: true})
	if err != nil { t.Fatal(err) }
	for i := 0; i < 3; i++ {
		if _, err := l.Publish([]klevdb.Message{{Time: time.Unix(int64(100+i), 0), Key: []byte("k"), Value: []byte("v")}}); err != nil { t.Fatal(err) }
	}
	if err := l.Close(); err != nil { t.Fatal(err) }
	logPath := filepath.Join(dir, "00000000000000000000.log")
	data, err := os.ReadFile(logPath)
	if err != nil { t.Fatal(err) }
	// a crash during an earlier recovery left a partial copy behind: header + first record
	recLen := (len(data) - 8) / 3
	if err := os.WriteFile(logPath+".recover", data[:8+recLen], 0600); err != nil { t.Fatal(err) }
	// now the tail of the log is damaged (torn last record) and the index is gone
	if err := os.WriteFile(logPath, data[:len(data)-5], 0600); err != nil { t.Fatal(err) }
	os.Remove(filepath.Join(dir, "00000000000000000000.index"))
	if err := klevdb.Recover(dir, klevdb.Options{}); err != nil { t.Fatal(err) }
	l, err = klevdb.Open(dir, klevdb.Options{})
	if err != nil { t.Fatal(err) }
	defer l.Close()
	_, msgs, err := l.Consume(klevdb.OffsetOldest, 10)
	if err != nil { t.Fatal(err) }
	var offs []int64
	for _, m := range msgs { offs = append(offs, m.Offset) }
	if len(offs) != 2 || offs[0] != 0 || offs[1] != 1 { t.Fatalf("after recovery want offsets [0 1], got %v", offs) }
}
