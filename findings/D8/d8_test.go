package probe

import (
	"path/filepath"
	"testing"
	"time"

	"github.com/klev-dev/klevdb"
	"github.com/klev-dev/klevdb/pkg/index"
	"github.com/klev-dev/klevdb/pkg/message"
	"github.com/klev-dev/klevdb/pkg/segment"
)

// D8: crash image of the "rebase" path of delete-by-rewrite: after rename(temp -> new base)
// and before remove(old base) the directory holds two overlapping segments.
func TestD8(t *testing.T) {
	dir := t.TempDir()
	l, err := klevdb.Open(dir, klevdb.Options{CreateDirs: true, Rollover: 200})
	if err != nil { t.Fatal(err) }
	for i := 0; i < 6; i++ {
		if _, err := l.Publish([]klevdb.Message{{Time: time.Unix(int64(100+i), 0), Key: []byte("k"), Value: make([]byte, 60)}}); err != nil { t.Fatal(err) }
	}
	st, _ := l.Stat()
	if err := l.Close(); err != nil { t.Fatal(err) }
	t.Logf("before: %+v", st)
	// perform the file-system steps of Delete({0}) on the first (reader) segment up to the crash point
	segs, err := segment.Find(dir, false)
	if err != nil { t.Fatal(err) }
	rs, err := segs[0].Rewrite(map[int64]struct{}{0: {}}, index.Params{}, message.V2, index.V2)
	if err != nil { t.Fatal(err) }
	if err := rs.Rename(rs.GetNewSegment()); err != nil { t.Fatal(err) }
	// --- crash here: segs[0].Remove() never runs ---
	files, _ := filepath.Glob(filepath.Join(dir, "*.log"))
	t.Logf("crash image: %v", files)
	l, err = klevdb.Open(dir, klevdb.Options{Recover: true})
	if err != nil { t.Fatal(err) }
	defer l.Close()
	st2, _ := l.Stat()
	if st2.Messages != 6 && st2.Messages != 5 { t.Errorf("Stat after crash+Recover reports %d messages (6 were published, the in-flight delete covers 1)", st2.Messages) }
	seen := map[int64]int{}
	for off := klevdb.OffsetOldest; ; {
		next, msgs, err := l.Consume(off, 32)
		if err != nil { t.Fatal(err) }
		for _, m := range msgs { seen[m.Offset]++ }
		if next == off || len(msgs) == 0 { break }
		off = next
	}
	for o, n := range seen { if n > 1 { t.Errorf("offset %d visited %d times", o, n) } }
}
