package probe

import (
	"sync"
	"testing"
	"time"

	"github.com/klev-dev/klevdb"
)

// D9: (*log).delete reads l.writer (KeepRewriteVersion branch) after writerMu was released,
// racing with the rollover in Publish that replaces l.writer. Run with -race.
func TestD9(t *testing.T) {
	l, err := klevdb.Open(t.TempDir(), klevdb.Options{CreateDirs: true, Rollover: 50, Version: klevdb.VersionOptions{KeepRewriteVersion: true}})
	if err != nil { t.Fatal(err) }
	defer l.Close()
	var wg sync.WaitGroup
	stop := time.Now().Add(3 * time.Second)
	wg.Add(2)
	go func() {
		defer wg.Done()
		for time.Now().Before(stop) {
			if _, err := l.Publish([]klevdb.Message{{Key: []byte("k"), Value: make([]byte, 40)}}); err != nil { t.Error(err); return }
		}
	}()
	go func() {
		defer wg.Done()
		for time.Now().Before(stop) {
			next, _ := l.NextOffset()
			if next == 0 { continue }
			if _, _, err := l.Delete(map[int64]struct{}{next - 1: {}}); err != nil { t.Error(err); return }
		}
	}()
	wg.Wait()
}
