#!/bin/bash
# runs the quick check of every claimed property; prints one line each
cd "$(dirname "$0")/.."
for p in $(python3 -c "import json;print(' '.join(c['property_id'] for c in json.load(open('MANIFEST.json'))['checks']))"); do
  out=$(./check $p quick 2>&1); rc=$?
  echo "$out" | grep -E "^VIOLATION" | cut -c1-200
  echo "rc=$rc $(echo "$out" | tail -1)"
done
