#!/bin/bash
# usage: tools/confirm_seed.sh <srcdir with patch.diff demo_test.go notes.txt> <seed id e.g. C10-1> <property>
# Confirms in a scratch worktree: patched tree builds, full suite passes, demo fails; unpatched: demo passes.
set -u
src=$1; id=$2; prop=$3
export PATH=/opt/veriftools/go1.26.8/bin:$PATH GOFLAGS=-mod=mod GOPROXY=off GOSUMDB=off GOTOOLCHAIN=local
wt=/tmp/confirm-$id
git -C /repo worktree remove --force $wt 2>/dev/null
git -C /repo worktree add -q --detach $wt HEAD || exit 2
demodir=$wt
if grep -qi "pkg/" $src/notes.txt 2>/dev/null && head -1 $src/demo_test.go | grep -qv "package klevdb"; then
  pk=$(head -1 $src/demo_test.go | awk '{print $2}'); demodir=$wt/pkg/$pk
fi
names=$(grep -o 'func Test[A-Za-z0-9_]*' $src/demo_test.go | awk '{print $2}' | paste -sd'|')
cp $src/demo_test.go $demodir/zz_seed_demo_test.go
( cd $wt && go test -vet=off -count=1 -run "^($names)\$" ./$(realpath --relative-to=$wt $demodir)/ >/tmp/confirm-$id.clean.log 2>&1 ); clean=$?
rm $demodir/zz_seed_demo_test.go
git -C $wt apply $src/patch.diff || { echo "patch does not apply"; exit 2; }
( cd $wt && go build ./... && go test -vet=off -count=1 ./... >/tmp/confirm-$id.suite.log 2>&1 ); suite=$?
cp $src/demo_test.go $demodir/zz_seed_demo_test.go
( cd $wt && go test -vet=off -count=1 -run "^($names)\$" ./$(realpath --relative-to=$wt $demodir)/ >/tmp/confirm-$id.demo.log 2>&1 ); demo=$?
git -C /repo worktree remove --force $wt
echo "seed $id: demo-on-clean rc=$clean (want 0)  suite-with-patch rc=$suite (want 0)  demo-with-patch rc=$demo (want !=0)"
if [ $clean -eq 0 ] && [ $suite -eq 0 ] && [ $demo -ne 0 ]; then
  d=/verif/seeded/$id; mkdir -p $d; cp $src/patch.diff $src/demo_test.go $d/; cp $src/notes.txt $d/notes.txt
  python3 - "$d" "$id" "$prop" "$src" <<'PY'
import json,sys
d,id,prop,src=sys.argv[1:5]
notes=open(src+'/notes.txt').read()
json.dump({"id":id,"breaks_property":prop,"needs_to_manifest":notes.strip().split('\n'),"confirmed_by":"tools/confirm_seed.sh in a scratch worktree of /repo HEAD: demo passes on the clean tree; with patch.diff applied the tree builds, the full existing suite passes (go test -vet=off -count=1 ./...), and the demo fails","detected_by":[]},open(d+'/meta.json','w'),indent=1)
PY
  echo "  kept as $d"
else
  echo "  NOT confirmed; see /tmp/confirm-$id.*.log"
fi
