#!/usr/bin/env python3
"""Regenerates the generated tables of DESIGN.md section 10 (between the AS-BUILT markers) from
props/*.json, seeded/*/meta.json, mutants/*.txt and KNOWN_FINDINGS.txt."""
import json, glob, os, re
V='/verif'
out=[]
props=sorted(glob.glob(V+'/props/C*.json'))
na=json.load(open(V+'/MANIFEST.json'))['not_applicable']
out.append('### 10.3 What each check decides (generated from props/*.json)\n')
for p in props:
    d=json.load(open(p))
    ev={}
    try: ev=json.load(open(f"{V}/evidence/{d['id']}.json"))['coverage']
    except Exception: pass
    out.append(f"#### {d['id']}\n")
    out.append(d['claim']+'\n')
    out.append(f"*Units under contract* ({len(d['units'])}): " + ', '.join('`'+u+'`' for u in d['units']) + (f"; lemmas: {', '.join(d['lemmas'])}" if d.get('lemmas') else '') + (f". Clause filter for thin units: `{d['filter']}`." if d.get('filter') else '.') + '\n')
    if ev: out.append(f"*Last quick run*: {ev.get('obligations')} obligations, {ev.get('discharged')} discharged ({', '.join(f'{k}: {v}' for k,v in ev.get('discharged_by_backend',{}).items())}).\n")
    for k,t in (('decided','Decided'),('assumed','Assumed (unchecked)'),('undecided','Not decided by this check')):
        if d.get(k):
            out.append(f"*{t}:*\n")
            out += [f"- {x}" for x in d[k]]
            out.append('')
out.append('### 10.4 Properties not claimed\n')
for e in na:
    out.append(f"- **{e['property_id']}**: {e['reason']}")
out.append('')
out.append('### 10.5 Seeded changes (sub-agents, confirmed in scratch worktrees) and the check that catches each\n')
out.append('| seed | change (first line of the agent\'s notes) | outcome of `./check <property> quick` with the patch applied |')
out.append('|---|---|---|')
for m in sorted(glob.glob(V+'/seeded/*/meta.json')):
    d=json.load(open(m))
    note=d['needs_to_manifest'][0] if d.get('needs_to_manifest') else ''
    note=re.sub(r'\s+',' ',note)[:230].replace('|','\\|')
    det=d.get('detected_by') or []
    res=('**detected**: '+'; '.join('`'+x+'`' for x in det[:2])) if det else ('not detected — '+d.get('status','').replace('not detected: ','')[:260].replace('|','\\|'))
    out.append(f"| {d['id']} | {note} | {res} |")
out.append('')
out.append('### 10.6 Must-fail corpus (mutants/*.txt, `mutants/run.sh`)\n')
out.append('| property | mutants | names |')
out.append('|---|---|---|')
for f in sorted(glob.glob(V+'/mutants/C*.txt')):
    names=[l.split('|')[0] for l in open(f) if '|' in l and not l.startswith('#')]
    out.append(f"| {os.path.basename(f)[:-4]} | {len(names)} | {', '.join(names)} |")
out.append('')
out.append('### 10.7 Known findings file (KNOWN_FINDINGS.txt)\n')
for l in open(V+'/KNOWN_FINDINGS.txt'):
    if l.startswith(('fixed:','finding:')):
        out.append('- '+l.strip()[:600])
out.append('')
block='\n'.join(out)
s=open(V+'/DESIGN.md').read()
b,e='<!-- AS-BUILT:BEGIN -->','<!-- AS-BUILT:END -->'
if b in s:
    s=s[:s.index(b)+len(b)]+'\n'+block+'\n'+s[s.index(e):]
    open(V+'/DESIGN.md','w').write(s)
    print('DESIGN.md tables regenerated')
else:
    print('markers missing')
