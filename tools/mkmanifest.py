#!/usr/bin/env python3
# Regenerates /verif/MANIFEST.json from props/*.json (claimed checks) and props/not_applicable.json.
import json, glob, os, subprocess
root = os.path.dirname(os.path.dirname(os.path.abspath(__file__)))
props = [json.loads(l)['id'] for l in open(os.path.join(root, 'properties.jsonl'))]
na = json.load(open(os.path.join(root, 'props', 'not_applicable.json')))
checks = []
claimed = set()
for f in sorted(glob.glob(os.path.join(root, 'props', 'C*.json'))):
    p = json.load(open(f))
    if not p.get('claim'):
        continue
    pid = p['id']
    claimed.add(pid)
    note = []
    if p.get('assumed'):
        note.append('ASSUMED (trusted contracts / boundary): ' + '; '.join(p['assumed']))
    if p.get('undecided'):
        note.append('NOT DECIDED by this family: ' + '; '.join(p['undecided']))
    note.append('Common trusted base: go/packages+go/ssa, the VC generator in /verif/engine, z3/cvc5; sequential semantics; mathematical integers (overflow obligations only in flagged functions); external functions by assumed contracts listed in the evidence file on every run.')
    checks.append({
        'property_id': pid,
        'quick_cmd': './check %s quick' % pid,
        'thorough_cmd': './check %s thorough' % pid,
        'evidence_file': 'evidence/%s.json' % pid,
        'replay_cmd_template': './check --replay {path}',
        'engine': 'govc',
        'level_claimed': {'category': 'proof', 'text': p['claim'], 'design_ref': 'DESIGN.md section 5, ' + pid},
        'level_note': ' '.join(note),
        'technique': p.get('technique', 'contract-based deductive verification: WP-style VCs from go/ssa against contracts, discharged by z3/cvc5'),
    })
hooks = subprocess.run(['git', '-C', '/repo', 'log', '--format=%H %s'], capture_output=True, text=True).stdout.splitlines()
touch = set(subprocess.run(['git', '-C', '/repo', 'log', '--format=%H', '--', '*verif_contracts.go'], capture_output=True, text=True).stdout.split())
hook_commits = [l.split()[0] for l in hooks if ' verif:' in l or l.split(' ', 1)[1].startswith('verif') or l.split()[0] in touch]
m = {
    'version': 1,
    'setup_cmd': './setup.sh',
    'hooks': {
        'guard': 'verif',
        'enable': '-tags verif (the contract files verif_contracts.go are //go:build verif and contain comments only)',
        'baseline_off_cmd': 'cd /repo && PATH=/opt/veriftools/go1.26.8/bin:$PATH GOTOOLCHAIN=local GOFLAGS=-mod=mod GOPROXY=off GOSUMDB=off go test -vet=off -count=1 ./...',
        'source_commits': hook_commits,
        'add_only': True,
    },
    'engines': [{'name': 'govc', 'path': '/verif/engine', 'serves_properties': sorted(claimed),
                 'kind_free_text': 'contract-based deductive verifier for Go written for this task: loads /repo working tree (go/packages, -tags verif), builds go/ssa, generates weakest-precondition style verification conditions per function against Gobra-style contracts kept in comment-only verif_contracts.go files, discharges each obligation with z3 5.1.0 / cvc5 1.0.3 / z3 4.8.12'}],
    'checks': checks,
    'notes': 'See DESIGN.md. Known genuine defects are listed in KNOWN_FINDINGS.txt (finding:/fixed: lines). Must-fail corpus: mutants/run.sh. Seeded third-party changes: seeded/.',
    'not_applicable': [{'property_id': p, 'reason': na.get(p, 'check not built yet (work in progress; see DESIGN.md section 5 for the plan)')} for p in props if p not in claimed],
}
json.dump(m, open(os.path.join(root, 'MANIFEST.json'), 'w'), indent=1)
print('claimed:', sorted(claimed))
