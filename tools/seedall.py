#!/usr/bin/env python3
"""Runs every seeded change in /verif/seeded against the check of the property it breaks (on a scratch
copy of /repo's working tree with the patch applied; /repo itself is not touched) and records the
outcome in seeded/<id>/meta.json (detected_by, status).  usage: tools/seedall.py [ids...]   JOBS=n"""
import json, os, subprocess, sys, tempfile, shutil, glob
from concurrent.futures import ThreadPoolExecutor
V = '/verif'
env = dict(os.environ, PATH='/opt/veriftools/go1.26.8/bin:' + os.environ['PATH'], GOFLAGS='-mod=mod', GOPROXY='off', GOSUMDB='off', GOTOOLCHAIN='local', GOVC_WORKERS=str(max(2, 16 // int(os.environ.get('JOBS', '4')))))
claimed = [c['property_id'] for c in json.load(open(V + '/MANIFEST.json'))['checks']]
def one(sid):
    d = f'{V}/seeded/{sid}'
    meta = json.load(open(d + '/meta.json'))
    prop = meta['breaks_property']
    tmp = tempfile.mkdtemp(prefix='verif.seed.', dir='/var/tmp')
    try:
        subprocess.run(['rsync', '-a', '--exclude', '.git', '/repo/', tmp + '/'], check=True)
        r = subprocess.run(['git', 'apply', '--unsafe-paths', '--directory', tmp, d + '/patch.diff'], cwd='/', capture_output=True, text=True)
        if r.returncode != 0:
            r = subprocess.run(['patch', '-p1', '-s', '-i', d + '/patch.diff'], cwd=tmp, capture_output=True, text=True)
            if r.returncode != 0:
                return sid, prop, None, 'patch does not apply: ' + r.stderr[:200]
        if prop not in claimed:
            return sid, prop, [], 'property not claimed'
        r = subprocess.run([V + '/bin/govc', 'check', '-repo', tmp, '-no-evidence', '-replays', tmp + '/.replays', '-tier', 'quick', prop], capture_output=True, text=True, env=env)
        obs = [l.split('obligation=')[1].split(' ')[0] for l in r.stdout.splitlines() if l.startswith('VIOLATION') and 'obligation=' in l]
        return sid, prop, obs, r.stdout.strip().splitlines()[-1] if r.stdout.strip() else r.stderr[-200:]
    finally:
        shutil.rmtree(tmp, ignore_errors=True)
ids = sys.argv[1:] or sorted(os.path.basename(p) for p in glob.glob(V + '/seeded/C*'))
with ThreadPoolExecutor(int(os.environ.get('JOBS', '4'))) as ex:
    for sid, prop, obs, last in ex.map(one, ids):
        mp = f'{V}/seeded/{sid}/meta.json'
        meta = json.load(open(mp))
        if obs is None:
            print(f'{sid}: ERROR {last}'); continue
        meta['detected_by'] = [f'{prop}: {o}' for o in obs[:6]]
        if obs:
            meta['status'] = f'detected by ./check {prop} quick ({len(obs)} failed obligation(s))'
        elif not meta.get('status', '').startswith('not detected'):
            meta['status'] = 'not detected: ' + meta.get('status', '').replace('not yet detected: ', '')
        json.dump(meta, open(mp, 'w'), indent=1)
        print(f'{sid}: {"DETECTED " + obs[0] if obs else "not detected"}   [{last[:110]}]')
