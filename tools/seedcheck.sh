#!/bin/bash
# usage: tools/seedcheck.sh <seed id> <property> : applies seeded/<id>/patch.diff to /repo, runs the quick check, reverts.
if [ -n "$(git -C /repo status --porcelain)" ]; then echo "/repo has uncommitted changes; commit them first"; exit 2; fi
git -C /repo apply /verif/seeded/$1/patch.diff || exit 2
/verif/bin/govc check -no-evidence $2 2>&1 | cut -c1-220
git -C /repo checkout -- .
